// Generates `engine_mods.rs`: one `#[path = "<engine src>/<m>.rs"] pub mod <m>;` line per module
// declared in the engine's main.rs, so the engine's sources are compiled into this crate at its
// root (their `crate::board::Board` paths resolve unchanged) with `--cfg flounder_verif` on.
use std::{env, fs, path::PathBuf};

fn main() {
    let src = env::var("FLOUNDER_SRC").unwrap_or_else(|_| "/repo/src".to_string());
    println!("cargo:rerun-if-env-changed=FLOUNDER_SRC");
    println!("cargo:rerun-if-changed={}", src);
    println!("cargo:rerun-if-changed=build.rs");
    println!("cargo:rustc-cfg=flounder_verif");
    println!("cargo:rustc-env=FLOUNDER_SRC_USED={}", src);
    let main_rs = fs::read_to_string(format!("{}/main.rs", src)).expect("engine main.rs");
    let mut out = String::new();
    for line in main_rs.lines() {
        let l = line.trim();
        if let Some(rest) = l.strip_prefix("mod ") {
            if let Some(name) = rest.strip_suffix(';') {
                let name = name.trim();
                println!("cargo:rerun-if-changed={}/{}.rs", src, name);
                out.push_str(&format!("#[path = \"{}/{}.rs\"]\npub mod {};\n", src, name, name));
            }
        }
    }
    let dest = PathBuf::from(env::var("OUT_DIR").unwrap()).join("engine_mods.rs");
    fs::write(dest, out).unwrap();
}
