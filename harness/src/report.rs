//! Verdict discipline, evidence files, replay files, known findings.
//!
//! Exit codes: 0 = held on everything observed; 1 = violation (with a `VIOLATION property=<id>
//! replay=<path>` line); 2 = inconclusive / harness error (never a VIOLATION line).
use crate::json::{self, J};
use std::collections::{BTreeMap, HashSet};
use std::fs::File;
use std::io::Write;
use std::path::PathBuf;
use std::sync::{Mutex, OnceLock};
use std::time::{Duration, Instant};

static REPORT: OnceLock<Mutex<File>> = OnceLock::new();

extern "C" {
    fn dup(fd: i32) -> i32;
    fn dup2(a: i32, b: i32) -> i32;
}

/// The engine prints `info ...` lines with println! when driven in-process. Keep the harness's own
/// report on a private copy of stdout and point fd 1 at /dev/null.
pub fn init_output() {
    use std::os::fd::{AsRawFd, FromRawFd};
    if cfg!(miri) {
        return;
    }
    unsafe {
        let _ = std::io::stdout().flush();
        let saved = dup(1);
        if saved >= 0 {
            if let Ok(null) = std::fs::OpenOptions::new().write(true).open("/dev/null") {
                dup2(null.as_raw_fd(), 1);
            }
            let _ = REPORT.set(Mutex::new(File::from_raw_fd(saved)));
        }
    }
}

pub fn say(line: &str) {
    if let Some(m) = REPORT.get() {
        let mut f = m.lock().unwrap();
        let _ = writeln!(f, "{}", line);
        let _ = f.flush();
    } else {
        eprintln!("{}", line);
    }
}

#[macro_export]
macro_rules! say {
    ($($arg:tt)*) => { $crate::report::say(&format!($($arg)*)) };
}

thread_local! {
    static IN_ENGINE: std::cell::Cell<bool> = const { std::cell::Cell::new(false) };
    static LAST_PANIC: std::cell::RefCell<String> = const { std::cell::RefCell::new(String::new()) };
}

pub fn install_panic_hook() {
    let default = std::panic::take_hook();
    std::panic::set_hook(Box::new(move |info| {
        if IN_ENGINE.with(|f| f.get()) {
            let msg = if let Some(s) = info.payload().downcast_ref::<&str>() {
                s.to_string()
            } else if let Some(s) = info.payload().downcast_ref::<String>() {
                s.clone()
            } else {
                "panic".to_string()
            };
            let loc = info.location().map(|l| format!(" at {}:{}", l.file(), l.line())).unwrap_or_default();
            LAST_PANIC.with(|p| *p.borrow_mut() = format!("{}{}", msg, loc));
        } else {
            default(info);
        }
    }));
}

/// Run engine code; a panic inside it (overflow, bounds, unwrap, hard cap) is returned as Err.
pub fn engine_call<T>(f: impl FnOnce() -> T) -> Result<T, String> {
    let prev = IN_ENGINE.with(|c| c.replace(true));
    let r = std::panic::catch_unwind(std::panic::AssertUnwindSafe(f));
    IN_ENGINE.with(|c| c.set(prev));
    r.map_err(|_| LAST_PANIC.with(|p| p.borrow().clone()))
}

#[derive(Clone, Copy, PartialEq, Eq, Debug)]
pub enum Tier {
    Quick,
    Thorough,
}

#[derive(Clone)]
pub struct Ctx {
    pub id: String,
    pub tier: Tier,
    pub seed: u64,
    pub start: Instant,
    pub workers: usize,
    pub verif_dir: PathBuf,
    /// where evidence/ and replays/ are written (== verif_dir except in monitor self-tests)
    pub out_dir: PathBuf,
    pub engine_bin: PathBuf,
    pub replay: Option<J>,
    pub scale: f64,
    /// workers stop starting new cases after this (evidence reports what was actually done)
    pub soft_limit: Duration,
}

impl Ctx {
    pub fn quick(&self) -> bool {
        self.tier == Tier::Quick
    }
    /// case budget for this tier
    pub fn budget(&self, quick: u64, thorough: u64) -> u64 {
        let b = if self.quick() { quick } else { thorough };
        ((b as f64 * self.scale) as u64).max(1)
    }
    pub fn out_of_time(&self) -> bool {
        self.start.elapsed() > self.soft_limit
    }
    /// true once this fraction of the soft time budget is used (time slices of multi-part monitors,
    /// so that a loaded machine shortens every part instead of starving the last ones)
    pub fn past(&self, frac: f64) -> bool {
        self.start.elapsed().as_secs_f64() > self.soft_limit.as_secs_f64() * frac
    }
    pub fn tier_name(&self) -> &'static str {
        if self.quick() {
            "quick"
        } else {
            "thorough"
        }
    }
}

#[derive(Clone)]
pub struct Violation {
    /// identifies the failing input class; matched exactly against known_findings.json
    pub signature: String,
    pub summary: String,
    pub replay: J,
    pub count: u64,
}

pub const DISTINCT_CAP: usize = 6_000_000;

#[derive(Default)]
pub struct Stats {
    pub evals: u64,
    pub distinct: HashSet<u64>,
    pub distinct_capped: bool,
    pub counts: BTreeMap<String, u64>,
    pub samples: Vec<J>,
    pub sample_tags: Vec<String>,
    pub violations: Vec<Violation>,
    pub violation_total: u64,
    pub inconclusive: Vec<String>,
}

impl Stats {
    pub fn new() -> Stats {
        Stats::default()
    }
    pub fn bump(&mut self, k: &str) {
        self.add(k, 1);
    }
    pub fn add(&mut self, k: &str, n: u64) {
        if let Some(v) = self.counts.get_mut(k) {
            *v += n;
        } else {
            self.counts.insert(k.to_string(), n);
        }
    }
    pub fn maxi(&mut self, k: &str, n: u64) {
        let e = self.counts.entry(k.to_string()).or_insert(0);
        if n > *e {
            *e = n;
        }
    }
    pub fn count(&self, k: &str) -> u64 {
        self.counts.get(k).copied().unwrap_or(0)
    }
    /// one executed case; `nontrivial` by the property's stated rule; `h` identifies the case
    pub fn case(&mut self, h: u64, nontrivial: bool) {
        self.evals += 1;
        if nontrivial {
            if self.distinct.len() < DISTINCT_CAP {
                self.distinct.insert(h);
            } else {
                self.distinct_capped = true;
            }
        }
    }
    /// keep at most one sample per tag (so the samples show the variety of the workload)
    pub fn sample_tagged(&mut self, tag: &str, f: impl FnOnce() -> J) {
        if self.samples.len() < 10 && !self.sample_tags.iter().any(|t| t == tag) {
            self.sample_tags.push(tag.to_string());
            self.samples.push(f());
        }
    }
    pub fn sample(&mut self, max: usize, f: impl FnOnce() -> J) {
        if self.samples.len() < max {
            self.samples.push(f());
            self.sample_tags.push(String::new());
        }
    }
    pub fn violation(&mut self, signature: impl Into<String>, summary: impl Into<String>, replay: J) {
        self.violation_total += 1;
        let v = Violation { signature: signature.into(), summary: summary.into(), replay, count: 1 };
        self.push_violation(v);
    }
    fn push_violation(&mut self, v: Violation) {
        if let Some(e) = self.violations.iter_mut().find(|e| e.signature == v.signature) {
            e.count += v.count;
        } else if self.violations.len() < 64 {
            self.violations.push(v);
        }
    }
    pub fn merge(&mut self, o: Stats) {
        self.evals += o.evals;
        for h in o.distinct {
            if self.distinct.len() < DISTINCT_CAP {
                self.distinct.insert(h);
            } else {
                self.distinct_capped = true;
            }
        }
        self.distinct_capped |= o.distinct_capped;
        for (k, v) in o.counts {
            if k.starts_with("max_") {
                self.maxi(&k, v);
            } else {
                self.add(&k, v);
            }
        }
        for (i, s) in o.samples.into_iter().enumerate() {
            let tag = o.sample_tags.get(i).cloned().unwrap_or_default();
            if self.samples.len() < 10 && (tag.is_empty() || !self.sample_tags.contains(&tag)) {
                self.samples.push(s);
                self.sample_tags.push(tag);
            }
        }
        self.violation_total += o.violation_total;
        for v in o.violations {
            self.push_violation(v);
        }
        self.inconclusive.extend(o.inconclusive);
    }
}

/// Run `f(worker_index)` on `n` threads and merge their statistics.
pub fn parallel<F: Fn(usize) -> Stats + Sync>(n: usize, f: F) -> Stats {
    let mut total = Stats::new();
    std::thread::scope(|s| {
        let hs: Vec<_> = (0..n).map(|w| { let f = &f; s.spawn(move || f(w)) }).collect();
        for h in hs {
            match h.join() {
                Ok(st) => total.merge(st),
                Err(_) => total.inconclusive.push("a harness worker thread panicked".into()),
            }
        }
    });
    total
}

pub struct Spec<'a> {
    pub level: &'a str,
    pub rule: &'a str,
    pub assumptions: Vec<String>,
    /// counters that must be non-zero for the run to count as having observed its property
    pub required: Vec<&'a str>,
    pub exhaustive: bool,
    pub extra: Vec<(String, J)>,
}

struct Known {
    property: String,
    status: String,
    signature: String,
    what: String,
}

fn load_known(ctx: &Ctx) -> Result<Vec<Known>, String> {
    let path = ctx.verif_dir.join("known_findings.json");
    let text = match std::fs::read_to_string(&path) {
        Ok(t) => t,
        Err(_) => return Ok(vec![]),
    };
    let j = json::parse(&text)?;
    let mut v = vec![];
    if let Some(a) = j.get("findings").and_then(|f| f.as_arr()) {
        for e in a {
            v.push(Known {
                property: e.str_of("property"),
                status: e.str_of("status"),
                signature: e.str_of("signature"),
                what: e.str_of("what"),
            });
        }
    }
    Ok(v)
}

/// Writes evidence + replays, prints the verdict lines, returns the process exit code.
pub fn finalize(ctx: &Ctx, spec: Spec, mut st: Stats) -> i32 {
    let known = match load_known(ctx) {
        Ok(k) => k,
        Err(e) => {
            st.inconclusive.push(format!("known_findings.json unreadable: {}", e));
            vec![]
        }
    };
    // ---- sanitizer pass (run by the check script before this process; see /verif/check)
    let mut san_summary: Option<J> = None;
    if let Ok(path) = std::env::var("VERIF_SAN_SUMMARY") {
        if let Ok(t) = std::fs::read_to_string(&path) {
            san_summary = json::parse(&t).ok();
        }
    }
    if let Ok(path) = std::env::var("VERIF_SAN_REPORT") {
        if let Ok(text) = std::fs::read_to_string(&path) {
            let kind = text
                .lines()
                .find_map(|l| l.split("AddressSanitizer: ").nth(1))
                .map(|r| r.split_whitespace().next().unwrap_or("report").to_string())
                .unwrap_or_else(|| "report".into());
            let src = env!("FLOUNDER_SRC_USED");
            let frame = text.lines().find(|l| l.trim_start().starts_with('#') && l.contains(src)).map(|l| l.trim().to_string());
            match frame {
                Some(f) => {
                    // "#3 0x... in fverif::magic::Magic::get_rook_attacks::h1234 /repo/src/magic.rs:196:9"
                    let func = f.split(" in ").nth(1).and_then(|r| r.split_whitespace().next()).unwrap_or("?").to_string();
                    let func = func.split("::h").next().unwrap_or(&func).to_string();
                    let loc = f.split_whitespace().last().unwrap_or("").to_string();
                    let excerpt: Vec<String> = text.lines().take(24).map(|l| l.to_string()).collect();
                    st.violation(
                        format!("{}:asan:{}:{}", ctx.id, kind, func),
                        format!("AddressSanitizer reports {} in engine code ({} at {}) while the {} workload ran in the sanitizer build", kind, func, loc, ctx.id),
                        J::obj(vec![("kind", J::s("sanitizer")), ("tool", J::s("AddressSanitizer")), ("seed", J::i(ctx.seed as i64)), ("tier", J::s(ctx.tier_name())), ("report", J::arr_s(excerpt))]),
                    );
                }
                None => st.inconclusive.push(format!("AddressSanitizer reported {} but no frame of the report lies in the engine sources ({}): harness problem, see target/san-out/{}/report.txt", kind, src, ctx.id)),
            }
        }
    }
    // ---- Miri pass (run by the check script before this process on a small single-threaded workload)
    let mut miri_summary: Option<J> = None;
    if let Ok(path) = std::env::var("VERIF_MIRI_SUMMARY") {
        if let Ok(t) = std::fs::read_to_string(&path) {
            miri_summary = json::parse(&t).ok();
        }
    }
    if let Ok(path) = std::env::var("VERIF_MIRI_REPORT") {
        if let Ok(text) = std::fs::read_to_string(&path) {
            let src = env!("FLOUNDER_SRC_USED");
            let kind = text.lines().find_map(|l| l.split("error: ").nth(1)).map(|r| r.chars().take(120).collect::<String>()).unwrap_or_else(|| "report".into());
            let wrong_answers = text.lines().any(|l| l.starts_with("MIRI ") && l.contains("mismatches=") && !l.contains("mismatches=0"));
            let frame = text.lines().find(|l| l.contains(src)).map(|l| l.trim().to_string());
            let excerpt: Vec<String> = text.lines().filter(|l| !l.trim().is_empty()).take(30).map(|l| l.to_string()).collect();
            if wrong_answers {
                st.violation(
                    format!("{}:miri:wrong-answers", ctx.id),
                    format!("the {} workload run under Miri got answers that differ from its reference model: {}", ctx.id, text.lines().find(|l| l.starts_with("MIRI ")).unwrap_or("")),
                    J::obj(vec![("kind", J::s("miri")), ("tool", J::s("Miri")), ("seed", J::i(ctx.seed as i64)), ("tier", J::s(ctx.tier_name())), ("report", J::arr_s(excerpt))]),
                );
            } else if let Some(fr) = frame {
                st.violation(
                    format!("{}:miri:{}", ctx.id, kind.split(':').next().unwrap_or("ub")),
                    format!("Miri reports '{}' with engine code on the stack ({}) while the {} workload ran in the interpreter", kind, fr, ctx.id),
                    J::obj(vec![("kind", J::s("miri")), ("tool", J::s("Miri")), ("seed", J::i(ctx.seed as i64)), ("tier", J::s(ctx.tier_name())), ("report", J::arr_s(excerpt))]),
                );
            } else {
                st.inconclusive.push(format!("Miri stopped with '{}' but no frame of the report lies in the engine sources ({}): harness or interpreter limitation, see target/miri-out/{}/stderr.txt", kind, src, ctx.id));
            }
        }
    }
    let mut fresh: Vec<Violation> = vec![];
    let mut known_hit: BTreeMap<String, (String, u64)> = BTreeMap::new();
    for v in st.violations.iter() {
        if let Some(k) = known
            .iter()
            .find(|k| k.status == "known" && k.property == ctx.id && k.signature == v.signature)
        {
            let e = known_hit.entry(k.signature.clone()).or_insert((k.what.clone(), 0));
            e.1 += v.count;
        } else {
            fresh.push(v.clone());
        }
    }
    for (sig, (what, n)) in known_hit.iter() {
        say!("KNOWN-FINDING: property={} {} [signature={} seen={}]", ctx.id, what, sig, n);
    }
    for r in spec.required.iter() {
        if st.count(r) == 0 {
            st.inconclusive.push(format!("nothing observed for required feature '{}'", r));
        }
    }
    if st.evals == 0 {
        st.inconclusive.push("no case was executed".into());
    }

    let replay_dir = ctx.out_dir.join("replays");
    let _ = std::fs::create_dir_all(&replay_dir);
    let mut replay_paths = vec![];
    fresh.truncate(12);
    for (i, v) in fresh.iter().enumerate() {
        let path = replay_dir.join(format!("{}-{}.json", ctx.id, i));
        let body = J::obj(vec![
            ("property", J::s(ctx.id.clone())),
            ("signature", J::s(v.signature.clone())),
            ("summary", J::s(v.summary.clone())),
            ("seed", J::i(ctx.seed as i64)),
            ("tier", J::s(ctx.tier_name())),
            ("case", v.replay.clone()),
        ]);
        let _ = std::fs::write(&path, body.pretty());
        replay_paths.push(path);
    }

    // ---- evidence
    let wall = ctx.start.elapsed().as_secs_f64();
    let mut cov: Vec<(String, J)> = vec![
        ("evaluations".into(), J::i(st.evals as i64)),
        ("distinct_nontrivial".into(), J::i(st.distinct.len() as i64)),
        (
            "rule".into(),
            J::s(format!(
                "{}{}",
                spec.rule,
                if st.distinct_capped {
                    format!(" [distinct set capped at {} entries: the count is a lower bound]", DISTINCT_CAP)
                } else {
                    String::new()
                }
            )),
        ),
        ("samples".into(), J::Arr(st.samples.clone())),
        ("exhaustive".into(), J::Bool(spec.exhaustive)),
        ("observed".into(), J::from_counts(&st.counts)),
    ];
    cov.extend(spec.extra.clone());
    if let Some(j) = san_summary {
        cov.push(("sanitizer_pass".into(), j));
    }
    if let Some(j) = miri_summary {
        cov.push(("miri_pass".into(), j));
    }
    if !st.inconclusive.is_empty() {
        cov.push(("inconclusive".into(), J::arr_s(st.inconclusive.clone())));
    }
    if !fresh.is_empty() {
        cov.push(("violation_summaries".into(), J::arr_s(fresh.iter().map(|v| v.summary.clone()))));
    }
    let ev = J::Obj(vec![
        ("property_id".into(), J::s(ctx.id.clone())),
        ("tier".into(), J::s(ctx.tier_name())),
        ("seed".into(), J::i(ctx.seed as i64)),
        ("level".into(), J::s(spec.level)),
        ("coverage".into(), J::Obj(cov)),
        ("assumptions".into(), J::arr_s(spec.assumptions.clone())),
        ("wall_s".into(), J::Num(wall)),
        ("violations".into(), J::i(st.violation_total as i64 - known_hit.values().map(|x| x.1 as i64).sum::<i64>())),
    ]);
    let ev_dir = ctx.out_dir.join("evidence");
    let _ = std::fs::create_dir_all(&ev_dir);
    if ctx.replay.is_none() {
        if let Err(e) = std::fs::write(ev_dir.join(format!("{}.json", ctx.id)), ev.pretty()) {
            st.inconclusive.push(format!("cannot write evidence: {}", e));
        }
    }

    // ---- report
    say!(
        "{} {} seed={} evaluations={} distinct_nontrivial={} violations={} wall={:.1}s",
        ctx.id,
        ctx.tier_name(),
        ctx.seed,
        st.evals,
        st.distinct.len(),
        st.violation_total,
        wall
    );
    let obs: Vec<String> = st.counts.iter().map(|(k, v)| format!("{}={}", k, v)).collect();
    say!("observed: {}", obs.join(" "));
    if !fresh.is_empty() {
        for (v, p) in fresh.iter().zip(replay_paths.iter()) {
            say!("  violated: {}", v.summary);
            say!("VIOLATION property={} replay={}", ctx.id, p.display());
        }
        return 1;
    }
    if !st.inconclusive.is_empty() {
        for m in st.inconclusive.iter() {
            say!("INCONCLUSIVE: {}", m);
        }
        return 2;
    }
    say!("HELD property={} on everything observed", ctx.id);
    0
}


// ------------------------------------------------------------------------------- hang monitor
//
// A case whose engine call never returns cannot be caught by catch_unwind and cannot be killed (it
// runs on a thread of this process). Monitors register such cases here; a monitor thread reads the
// CPU time of the registering thread from /proc and, once one case has burnt more CPU than its
// limit (orders of magnitude above what the case normally needs — CPU time, so machine load cannot
// fake it), ends the run at once with a verdict for that case: a violation where the property
// itself promises a prompt return (C07), inconclusive elsewhere. Evidence of such a run is minimal.

struct Slot {
    tid: i32,
    cpu0_ms: u64,
    limit_ms: u64,
    violation: bool,
    signature: String,
    summary: String,
    replay: J,
}

static SLOTS: Mutex<Vec<Option<Slot>>> = Mutex::new(Vec::new());
static GUARDED_CASES: std::sync::atomic::AtomicU64 = std::sync::atomic::AtomicU64::new(0);

extern "C" {
    fn syscall(n: i64, ...) -> i64;
}

fn own_tid() -> i32 {
    // SYS_gettid on x86_64
    unsafe { syscall(186) as i32 }
}

fn thread_cpu_ms(tid: i32) -> Option<u64> {
    let t = std::fs::read_to_string(format!("/proc/self/task/{}/stat", tid)).ok()?;
    let rest = &t[t.rfind(')')? + 1..];
    let f: Vec<&str> = rest.split_whitespace().collect();
    // after the command name: state is field 0, utime field 11, stime field 12
    let ut: u64 = f.get(11)?.parse().ok()?;
    let stt: u64 = f.get(12)?.parse().ok()?;
    Some((ut + stt) * 10)
}

pub struct CaseGuard(Option<usize>);

impl Drop for CaseGuard {
    fn drop(&mut self) {
        if let Some(i) = self.0 {
            if let Ok(mut s) = SLOTS.lock() {
                s[i] = None;
            }
        }
    }
}

/// Registers the case the calling thread is about to run. `violation`: a hang of this case refutes
/// the property being checked (otherwise the run ends inconclusive, naming the case).
pub fn guard_case(limit_s: u64, violation: bool, signature: String, summary: String, replay: J) -> CaseGuard {
    note_case(&summary);
    if cfg!(miri) {
        return CaseGuard(None);
    }
    let tid = own_tid();
    let Some(cpu0_ms) = thread_cpu_ms(tid) else { return CaseGuard(None) };
    GUARDED_CASES.fetch_add(1, std::sync::atomic::Ordering::Relaxed);
    let slot = Slot { tid, cpu0_ms, limit_ms: limit_s * 1000, violation, signature, summary, replay };
    let mut s = SLOTS.lock().unwrap();
    let i = match s.iter().position(|x| x.is_none()) {
        Some(i) => i,
        None => {
            s.push(None);
            s.len() - 1
        }
    };
    s[i] = Some(slot);
    CaseGuard(Some(i))
}

pub fn start_hang_monitor(ctx: &Ctx) {
    if cfg!(miri) {
        return;
    }
    let ctx = ctx.clone();
    std::thread::spawn(move || loop {
        std::thread::sleep(Duration::from_millis(500));
        let mut hit: Option<(bool, String, String, J, u64, u64)> = None;
        if let Ok(s) = SLOTS.lock() {
            for sl in s.iter().flatten() {
                if let Some(now) = thread_cpu_ms(sl.tid) {
                    let used = now.saturating_sub(sl.cpu0_ms);
                    if used > sl.limit_ms {
                        hit = Some((sl.violation, sl.signature.clone(), sl.summary.clone(), sl.replay.clone(), used, sl.limit_ms));
                        break;
                    }
                }
            }
        }
        if let Some((violation, signature, summary, replay, used, limit)) = hit {
            let mut st = Stats::new();
            let n = GUARDED_CASES.load(std::sync::atomic::Ordering::Relaxed);
            st.evals = n;
            // what was completed before the stuck case is not collected from the workers: count the
            // guarded cases started (each a distinct case by construction of the workloads)
            for k in 0..n.min(1000) {
                st.distinct.insert(k);
            }
            let text = format!("{}: the call had not returned after {:.1} s of CPU time on its thread (limit {} s; cases of this kind need well under a second)", summary, used as f64 / 1000.0, limit / 1000);
            st.samples.push(replay.clone());
            if violation {
                st.violation(signature, text, replay);
            } else {
                st.inconclusive.push(text);
            }
            let level = if ctx.id == "C06" || ctx.id == "C07" { "fault_enumeration" } else { "exploration" };
            let spec = Spec {
                level,
                rule: "RUN CUT SHORT by the hang monitor: one case never returned, so the statistics of the worker threads were not collected; evaluations counts the guarded cases started, distinct_nontrivial at most the first 1000 of them",
                assumptions: vec![],
                required: vec![],
                exhaustive: false,
                extra: vec![],
            };
            let code = finalize(&ctx, spec, st);
            std::process::exit(code);
        }
    });
}


// ----------------------------------------------------------------------- in-flight case journal
//
// When engine code takes the whole monitor process down (abort from a non-unwinding panic, heap
// corruption noticed by the allocator, abort()), the check script reports the death; this journal
// lets it also say WHICH cases were in flight. Monitors note the case a thread is about to run in a
// fixed slot; a SIGABRT/SIGILL/SIGBUS/SIGFPE handler writes all slots to stderr with raw write(2)
// calls (async-signal-safe) and lets the signal take its course.

const NOTE_LEN: usize = 400;

struct NoteSlot {
    tid: std::sync::atomic::AtomicI32,
    len: std::sync::atomic::AtomicUsize,
    buf: std::cell::UnsafeCell<[u8; NOTE_LEN]>,
}
unsafe impl Sync for NoteSlot {}

const EMPTY_SLOT: NoteSlot = NoteSlot { tid: std::sync::atomic::AtomicI32::new(0), len: std::sync::atomic::AtomicUsize::new(0), buf: std::cell::UnsafeCell::new([0; NOTE_LEN]) };
static NOTES: [NoteSlot; 64] = [EMPTY_SLOT; 64];
static NEXT_NOTE_SLOT: std::sync::atomic::AtomicUsize = std::sync::atomic::AtomicUsize::new(0);

thread_local! {
    static MY_NOTE_SLOT: std::cell::Cell<usize> = const { std::cell::Cell::new(usize::MAX) };
}

/// Remember what the calling thread is about to hand to engine code (cheap: one memcpy).
pub fn note_case(text: &str) {
    use std::sync::atomic::Ordering::Relaxed;
    let mut i = MY_NOTE_SLOT.with(|c| c.get());
    if i == usize::MAX {
        i = NEXT_NOTE_SLOT.fetch_add(1, Relaxed);
        MY_NOTE_SLOT.with(|c| c.set(i));
        if i < NOTES.len() {
            NOTES[i].tid.store(if cfg!(miri) { 1 } else { own_tid() }, Relaxed);
        }
    }
    if i >= NOTES.len() {
        return;
    }
    let b = text.as_bytes();
    let n = b.len().min(NOTE_LEN);
    NOTES[i].len.store(0, Relaxed);
    unsafe {
        std::ptr::copy_nonoverlapping(b.as_ptr(), (*NOTES[i].buf.get()).as_mut_ptr(), n);
    }
    NOTES[i].len.store(n, Relaxed);
}

extern "C" {
    fn signal(signum: i32, handler: usize) -> usize;
    fn raise(signum: i32) -> i32;
    fn write(fd: i32, buf: *const u8, n: usize) -> isize;
}

fn raw_err(b: &[u8]) {
    unsafe {
        let _ = write(2, b.as_ptr(), b.len());
    }
}

fn raw_num(mut v: i64) {
    let mut d = [0u8; 20];
    let mut i = d.len();
    if v <= 0 {
        raw_err(b"0");
        return;
    }
    while v > 0 {
        i -= 1;
        d[i] = b'0' + (v % 10) as u8;
        v /= 10;
    }
    raw_err(&d[i..]);
}

extern "C" fn fatal_signal(sig: i32) {
    use std::sync::atomic::Ordering::Relaxed;
    raw_err(b"\nFATAL-SIGNAL ");
    raw_num(sig as i64);
    raw_err(b" on thread ");
    raw_num(own_tid() as i64);
    raw_err(b"\n");
    for s in NOTES.iter() {
        let n = s.len.load(Relaxed);
        if n > 0 {
            raw_err(b"CASE-IN-FLIGHT tid=");
            raw_num(s.tid.load(Relaxed) as i64);
            raw_err(b" ");
            raw_err(unsafe { &(&(*s.buf.get()))[..n.min(NOTE_LEN)] });
            raw_err(b"\n");
        }
    }
    unsafe {
        signal(sig, 0); // SIG_DFL
        raise(sig);
    }
}

pub fn install_fatal_signal_journal() {
    if cfg!(miri) {
        return;
    }
    // SIGILL 4, SIGABRT 6, SIGBUS 7, SIGFPE 8 (SIGSEGV stays with the Rust runtime: its handler
    // reports stack overflows on an alternate stack)
    for sig in [4, 6, 7, 8] {
        unsafe {
            signal(sig, fatal_signal as usize);
        }
    }
}
