//! Workload generators (all driven by the reference rules, never by the engine).
use crate::oracle::{self, *};
use crate::rng::Rng;

/// Hand-written valid positions: standard perft positions plus castling / en-passant / promotion /
/// pin / discovered-check / mate / stalemate studies. Every feature counter required by a check is
/// guaranteed by this corpus for every seed.
pub const CORPUS: &[&str] = &[
    "rnbqkbnr/pppppppp/8/8/8/8/PPPPPPPP/RNBQKBNR w KQkq - 0 1",
    "r3k2r/p1ppqpb1/bn2pnp1/3PN3/1p2P3/2N2Q1p/PPPBBPPP/R3K2R w KQkq - 0 1",
    "8/2p5/3p4/KP5r/1R3p1k/8/4P1P1/8 w - - 0 1",
    "r3k2r/Pppp1ppp/1b3nbN/nP6/BBP1P3/q4N2/Pp1P2PP/R2Q1RK1 w kq - 0 1",
    "r2q1rk1/pP1p2pp/Q4n2/bbp1p3/Np6/1B3NBn/pPPP1PPP/R3K2R b KQ - 0 1",
    "rnbq1k1r/pp1Pbppp/2p5/8/2B5/8/PPP1NnPP/RNBQK2R w KQ - 1 8",
    "r4rk1/1pp1qppp/p1np1n2/2b1p1B1/2B1P1b1/P1NP1N2/1PP1QPPP/R4RK1 w - - 0 10",
    // en passant: plain, both pawns, horizontal pin, diagonal pin, discovered check, capture of the checker
    "rnbqkbnr/ppp1p1pp/8/3pPp2/8/8/PPPP1PPP/RNBQKBNR w KQkq f6 0 3",
    "rnbqkbnr/pp2pppp/8/2pPp3/8/8/PPP2PPP/RNBQKBNR w KQkq c6 0 4",
    "8/8/8/8/k2Pp2Q/8/8/3K4 b - d3 0 1",
    "8/8/8/KPp4r/8/8/8/6k1 w - c6 0 1",
    "8/8/8/1k6/2Pp4/8/8/4K2B b - c3 0 1",
    "4k3/8/8/8/3pP3/8/8/3RK3 b - e3 0 1",
    "8/8/8/2k5/3Pp3/8/8/4K3 b - d3 0 1",
    "8/8/3k4/8/2pP4/8/B7/4K3 b - d3 0 1",
    "8/1k6/8/3pP3/8/8/8/2R1K3 w - d6 0 1",
    "k7/8/8/3pP3/8/8/8/K6b w - d6 0 1",
    "4k3/8/8/1pP5/8/8/8/r3K3 w - b6 0 1",
    "rnbqkbnr/1ppppppp/8/8/pP6/P7/2PPPPPP/RNBQKBNR b KQkq b3 0 3",
    // castling: all four, attacked transit, attacked b-file only, in check, rook captured / rook moved
    "r3k2r/8/8/8/8/8/8/R3K2R w KQkq - 0 1",
    "r3k2r/8/8/8/8/8/8/R3K2R b KQkq - 0 1",
    "r3k2r/8/8/8/8/5r2/8/R3K2R w KQkq - 0 1",
    "r3k2r/8/8/8/8/1r6/8/R3K2R w KQkq - 0 1",
    "r3k2r/8/8/8/8/3r4/8/R3K2R w KQkq - 0 1",
    "r3k2r/8/8/8/8/4r3/8/R3K2R w KQkq - 0 1",
    "r3k2r/8/8/8/8/8/6p1/R3K2R w KQkq - 0 1",
    "r3k2r/8/8/8/8/8/1p6/R3K2R w KQkq - 0 1",
    "r3k2r/8/8/8/8/6n1/8/R3K2R w KQkq - 0 1",
    "r3k2r/8/8/8/8/8/8/R3K2R w Kq - 0 1",
    "rn2k2r/8/8/8/8/8/8/RN2K2R w KQkq - 0 1",
    "r3k2r/8/8/8/8/8/8/1R2K2R b Kkq - 0 1",
    "4k2r/6P1/8/8/8/8/8/4K3 w k - 0 1",
    "r3k3/1P6/8/8/8/8/8/4K3 w q - 0 1",
    "r3k2r/8/8/8/8/8/8/R3K2R w - - 0 1",
    "r3k2r/1B6/8/8/8/8/6b1/R3K2R w KQkq - 0 1",
    "r3k2r/1B6/8/8/8/8/6b1/R3K2R b KQkq - 0 1",
    // promotions
    "n1n5/PPPk4/8/8/8/8/4Kppp/5N1N b - - 0 1",
    "n1n5/PPPk4/8/8/8/8/4Kppp/5N1N w - - 0 1",
    "8/P7/8/8/8/8/7p/K6k w - - 0 1",
    "r3k2r/1P4P1/8/8/8/8/1p4p1/R3K2R w KQkq - 0 1",
    "r3k2r/1P4P1/8/8/8/8/1p4p1/R3K2R b KQkq - 0 1",
    "3rk3/2P1P3/8/8/8/8/8/4K3 w - - 0 1",
    // pins, checks, double checks, mates, stalemates
    "4k3/4r3/8/8/8/8/4R3/4K3 w - - 0 1",
    "4k3/8/8/b7/8/2N5/8/4K3 w - - 0 1",
    "4k3/8/8/8/7b/8/5P2/4K3 w - - 0 1",
    "k7/8/8/8/8/8/r7/K1r5 w - - 0 1",
    "4k3/8/8/8/1b6/8/3n4/4K2R w K - 0 1",
    "4k3/8/8/8/8/5n2/8/4K2r w - - 0 1",
    "3rk3/8/8/8/8/8/3N4/3K3q w - - 0 1",
    "r1bqkb1r/pppp1Qpp/2n2n2/4p3/2B1P3/8/PPPP1PPP/RNB1K1NR b KQkq - 0 4",
    "7k/5Q2/6K1/8/8/8/8/8 b - - 0 1",
    "k7/2Q5/1K6/8/8/8/8/8 b - - 0 1",
    "6k1/5ppp/8/8/8/8/8/R3K3 w Q - 0 1",
    "6k1/6P1/5K1R/8/8/8/8/8 w - - 0 1",
    "4k3/5p2/8/6B1/8/8/8/3R2K1 w - - 0 1",
    "rn3rk1/p5pp/2p5/3Ppb2/2q5/1Q6/PPPB2PP/R3K1NR b KQ - 0 1",
    "r1b1kb1r/pppp1ppp/5q2/4n3/3KP3/2N3PN/PPP4P/R1BQ1B1R b kq - 0 1",
    "r1bqkbnr/pppp1ppp/2n5/4p3/2B1P3/5N2/PPPP1PPP/RNBQK2R b KQkq - 3 3",
    "rnbqkb1r/pp1p1ppp/2p2n2/4p3/2B1P3/2N2N2/PPPP1PPP/R1BQK2R b KQkq - 1 4",
    "2kr3r/ppp2ppp/2n1bn2/2b1p1B1/4P1q1/2NP1N2/PPP1BPPP/R2Q1RK1 w - - 4 9",
    "8/8/4k3/8/8/4K3/4P3/8 w - - 0 1",
    "8/4p3/p7/np6/3k4/5K2/8/8 b - - 0 1",
    "8/5pk1/6p1/8/3B4/6K1/8/8 b - - 0 1",
    "1q4k1/8/8/8/8/8/PPPPPPP1/RNBQKBNR w KQ - 0 1",
    // extremes: the two known 218-move positions (any fixed-size move buffer below 218 overflows here),
    // their colour mirrors, and nine queens a side
    "R6R/3Q4/1Q4Q1/4Q3/2Q4Q/Q4Q2/pp1Q4/kBNN1KB1 w - - 0 1",
    "3Q4/1Q4Q1/4Q3/2Q4R/Q4Q2/3Q4/1Q4Rp/1K1BBNNk w - - 0 1",
    "Kbnn1kb1/PP1q4/q4q2/2q4q/4q3/1q4q1/3q4/r6r b - - 0 1",
    "1k1bbnnK/1q4rP/3q4/q4q2/2q4r/4q3/1q4q1/3q4 b - - 0 1",
    "qqqqkqqq/1q6/8/8/8/8/1Q6/QQQQKQQQ w - - 0 1",
];

pub fn corpus_pos(i: usize) -> Pos {
    Pos::from_fen(CORPUS[i % CORPUS.len()]).expect("corpus fen")
}

/// Vertical mirror with colours and side to move exchanged (a position and its mirror are the
/// same chess position seen from the other side).
pub fn mirror(p: &Pos) -> Pos {
    let mut n = Pos::empty();
    for s in 0..64u8 {
        let q = p.sq[s as usize];
        if q != 0 {
            n.sq[(s ^ 56) as usize] = pc(color(q) ^ 1, kind(q));
        }
    }
    n.stm = p.stm ^ 1;
    let c = p.castle;
    n.castle = ((c & WK != 0) as u8 * BK) | ((c & WQ != 0) as u8 * BQ) | ((c & BK != 0) as u8 * WK) | ((c & BQ != 0) as u8 * WQ);
    n.ep = if p.ep == NO_EP { NO_EP } else { p.ep ^ 56 };
    n.half = p.half;
    n.full = p.full;
    n
}

/// Pick a move, biased toward the rare kinds (captures, castles, promotions, ep, checks).
pub fn pick_move(p: &Pos, legal: &[Mv], rng: &mut Rng) -> Mv {
    if rng.chance(45, 100) {
        return *rng.pick(legal);
    }
    let special: Vec<&Mv> = legal
        .iter()
        .filter(|m| m.kind == MvKind::EnPassant || m.kind == MvKind::CastleK || m.kind == MvKind::CastleQ || m.promo != 0)
        .collect();
    if !special.is_empty() && rng.chance(60, 100) {
        return **rng.pick(&special);
    }
    let caps: Vec<&Mv> = legal.iter().filter(|m| p.is_capture(m)).collect();
    if !caps.is_empty() && rng.chance(50, 100) {
        return **rng.pick(&caps);
    }
    if rng.chance(30, 100) {
        let checks: Vec<&Mv> = legal.iter().filter(|m| p.gives_check(m)).collect();
        if !checks.is_empty() {
            return **rng.pick(&checks);
        }
    }
    // pawn double pushes create ep targets
    let dbl: Vec<&Mv> = legal.iter().filter(|m| m.kind == MvKind::Double).collect();
    if !dbl.is_empty() && rng.chance(30, 100) {
        return **rng.pick(&dbl);
    }
    *rng.pick(legal)
}

/// A random game from `start`: returns the positions visited (start first) and the moves played.
pub fn playout(start: &Pos, rng: &mut Rng, max_plies: usize) -> (Vec<Pos>, Vec<Mv>) {
    let mut ps = vec![start.clone()];
    let mut ms = vec![];
    let mut cur = start.clone();
    for _ in 0..max_plies {
        let legal = cur.legal_moves();
        if legal.is_empty() {
            break;
        }
        let m = pick_move(&cur, &legal, rng);
        cur = cur.make(&m);
        ms.push(m);
        ps.push(cur.clone());
        if cur.piece_count() <= 2 {
            break;
        }
    }
    (ps, ms)
}

fn random_empty(p: &Pos, rng: &mut Rng) -> u8 {
    loop {
        let s = rng.below(64) as u8;
        if p.sq[s as usize] == 0 {
            return s;
        }
    }
}

fn place(p: &mut Pos, rng: &mut Rng, piece: u8) -> u8 {
    loop {
        let s = random_empty(p, rng);
        if kind(piece) == P && (rank_of(s) == 0 || rank_of(s) == 7) {
            continue;
        }
        p.sq[s as usize] = piece;
        return s;
    }
}

/// Give the position random castling flags and ep target that are consistent with the placement.
pub fn decorate(p: &mut Pos, rng: &mut Rng) {
    p.castle = 0;
    for (bit, ksq, rsq, col) in [(WK, 4u8, 7u8, WHITE), (WQ, 4, 0, WHITE), (BK, 60, 63, BLACK), (BQ, 60, 56, BLACK)] {
        if p.sq[ksq as usize] == pc(col, K) && p.sq[rsq as usize] == pc(col, R) && rng.chance(3, 4) {
            p.castle |= bit;
        }
    }
    p.ep = NO_EP;
    if rng.chance(2, 3) {
        let them = p.stm ^ 1;
        let (ep_rank, pawn_rank, from_rank) = if them == WHITE { (2, 3, 1) } else { (5, 4, 6) };
        let mut cands = vec![];
        for f in 0..8 {
            if p.sq[sq(f, pawn_rank) as usize] == pc(them, P)
                && p.sq[sq(f, ep_rank) as usize] == 0
                && p.sq[sq(f, from_rank) as usize] == 0
            {
                cands.push(sq(f, ep_rank));
            }
        }
        if !cands.is_empty() {
            p.ep = *rng.pick(&cands);
        }
    }
}

/// Random synthetic valid position: reaches positions no game reaches (multiple checkers, many
/// queens, arbitrary flag combinations), all inside the C01 quantifier.
pub fn synth(rng: &mut Rng) -> Pos {
    loop {
        let mut p = Pos::empty();
        p.stm = rng.below(2) as u8;
        // kings, biased to home squares so castling flags can be set
        let wk = if rng.chance(1, 2) { 4 } else { rng.below(64) as u8 };
        p.sq[wk as usize] = pc(WHITE, K);
        let bk = loop {
            let s = if rng.chance(1, 2) { 60 } else { rng.below(64) as u8 };
            if p.sq[s as usize] == 0 {
                break s;
            }
        };
        p.sq[bk as usize] = pc(BLACK, K);
        // rooks biased to corners
        for (s, col) in [(0u8, WHITE), (7, WHITE), (56, BLACK), (63, BLACK)] {
            if p.sq[s as usize] == 0 && rng.chance(2, 5) {
                p.sq[s as usize] = pc(col, R);
            }
        }
        let extra = rng.range(0, 14);
        let heavy = rng.chance(1, 4);
        for _ in 0..extra {
            let col = rng.below(2) as u8;
            let k = if heavy {
                *rng.pick(&[Q, Q, R, B, N, P])
            } else {
                *rng.pick(&[P, P, P, P, N, B, R, Q])
            };
            if p.sq.iter().filter(|&&q| q != 0 && color(q) == col).count() >= 16 {
                continue;
            }
            place(&mut p, rng, pc(col, k));
        }
        decorate(&mut p, rng);
        if p.validity().is_ok() {
            return p;
        }
    }
}

/// En-passant studies: a pawn that just made a double step with capturing pawns next to it, kings
/// and sliders on the rank, file and diagonals concerned (horizontal pins, discovered checks,
/// check given by the pushed pawn).
pub fn g_ep(rng: &mut Rng) -> Pos {
    loop {
        // build with white to move (black just pushed), mirror half of the time
        let mut p = Pos::empty();
        p.stm = WHITE;
        let f = rng.below(8) as i8;
        p.sq[sq(f, 4) as usize] = pc(BLACK, P);
        p.ep = sq(f, 5);
        let mut placed = false;
        for df in [-1i8, 1] {
            if on_board(f + df, 4) && rng.chance(2, 3) {
                p.sq[sq(f + df, 4) as usize] = pc(WHITE, P);
                placed = true;
            }
        }
        if !placed {
            continue;
        }
        // white king: on the 5th rank, on a line through the pawns, in front of the pushed pawn, or anywhere
        let wk = match rng.below(5) {
            0 => sq(rng.below(8) as i8, 4),
            1 => {
                let d = rng.range(1, 3) as i8;
                let (x, y) = (f + *rng.pick(&[-d, d]), 4 + *rng.pick(&[-d, d]));
                if !on_board(x, y) {
                    continue;
                }
                sq(x, y)
            }
            2 => {
                // attacked by the pushed pawn: diagonally below it
                let x = f + *rng.pick(&[-1i8, 1]);
                if !on_board(x, 3) {
                    continue;
                }
                sq(x, 3)
            }
            _ => rng.below(64) as u8,
        };
        if p.sq[wk as usize] != 0 || wk == p.ep || wk == sq(f, 6) {
            continue;
        }
        p.sq[wk as usize] = pc(WHITE, K);
        let bk = random_empty(&p, rng);
        if bk == p.ep || bk == sq(f, 6) {
            continue;
        }
        p.sq[bk as usize] = pc(BLACK, K);
        for _ in 0..rng.range(0, 4) {
            let k = *rng.pick(&[R, Q, B, R, Q, B, N]);
            // sliders often on the 5th rank or the pawn's file / diagonals
            let s = if rng.chance(1, 2) { sq(rng.below(8) as i8, 4) } else { rng.below(64) as u8 };
            if p.sq[s as usize] == 0 && s != p.ep && s != sq(f, 6) {
                p.sq[s as usize] = pc(BLACK, k);
            }
        }
        for _ in 0..rng.range(0, 3) {
            let k = *rng.pick(&[R, Q, B, N, P]);
            let s = rng.below(64) as u8;
            if p.sq[s as usize] == 0 && s != p.ep && s != sq(f, 6) && !(k == P && (rank_of(s) == 0 || rank_of(s) == 7)) {
                p.sq[s as usize] = pc(WHITE, k);
            }
        }
        if p.validity().is_err() {
            continue;
        }
        return if rng.chance(1, 2) { mirror(&p) } else { p };
    }
}

/// Castling studies: king and rooks at home with rights, attackers aimed at the back rank.
pub fn g_castle(rng: &mut Rng) -> Pos {
    loop {
        let mut p = Pos::empty();
        p.stm = WHITE;
        p.sq[4] = pc(WHITE, K);
        if rng.chance(4, 5) {
            p.sq[7] = pc(WHITE, R);
        }
        if rng.chance(4, 5) {
            p.sq[0] = pc(WHITE, R);
        }
        let bk = if rng.chance(1, 2) { 60 } else { 32 + rng.below(32) as u8 };
        p.sq[bk as usize] = pc(BLACK, K);
        if bk == 60 {
            if rng.chance(1, 2) {
                p.sq[63] = pc(BLACK, R);
            }
            if rng.chance(1, 2) {
                p.sq[56] = pc(BLACK, R);
            }
        }
        // occasional blockers on the back rank
        for s in [1u8, 2, 3, 5, 6] {
            if rng.chance(1, 10) {
                p.sq[s as usize] = pc(rng.below(2) as u8, *rng.pick(&[N, B, Q]));
            }
        }
        // attackers
        for _ in 0..rng.range(0, 3) {
            let k = *rng.pick(&[R, B, Q, N, P]);
            let s = match k {
                P => sq(rng.below(8) as i8, 1),
                N => sq(rng.below(8) as i8, rng.range(1, 2) as i8),
                _ => rng.below(56) as u8 + 8,
            };
            if p.sq[s as usize] == 0 {
                p.sq[s as usize] = pc(BLACK, k);
            }
        }
        for _ in 0..rng.range(0, 3) {
            let s = rng.below(48) as u8 + 8;
            if p.sq[s as usize] == 0 {
                p.sq[s as usize] = pc(WHITE, *rng.pick(&[P, N, B]));
            }
        }
        decorate(&mut p, rng);
        if p.castle & (WK | WQ) == 0 || p.validity().is_err() {
            continue;
        }
        return if rng.chance(1, 2) { mirror(&p) } else { p };
    }
}

/// Promotion studies: pawns on the 7th next to corner rooks that still carry castling rights.
pub fn g_promo(rng: &mut Rng) -> Pos {
    loop {
        let mut p = Pos::empty();
        p.stm = WHITE;
        let bk = if rng.chance(2, 3) { 60 } else { rng.below(64) as u8 };
        p.sq[bk as usize] = pc(BLACK, K);
        if bk == 60 {
            if rng.chance(2, 3) {
                p.sq[63] = pc(BLACK, R);
            }
            if rng.chance(2, 3) {
                p.sq[56] = pc(BLACK, R);
            }
        }
        let wk = random_empty(&p, rng);
        p.sq[wk as usize] = pc(WHITE, K);
        for _ in 0..rng.range(1, 4) {
            let f = *rng.pick(&[0i8, 1, 1, 2, 3, 4, 5, 6, 6, 7]);
            if p.sq[sq(f, 6) as usize] == 0 {
                p.sq[sq(f, 6) as usize] = pc(WHITE, P);
            }
        }
        for _ in 0..rng.range(0, 4) {
            let s = sq(rng.below(8) as i8, 7);
            if p.sq[s as usize] == 0 {
                p.sq[s as usize] = pc(BLACK, *rng.pick(&[N, B, R, Q]));
            }
        }
        for _ in 0..rng.range(0, 3) {
            let s = rng.below(64) as u8;
            if p.sq[s as usize] == 0 {
                let k = *rng.pick(&[R, B, Q, N]);
                p.sq[s as usize] = pc(rng.below(2) as u8, k);
            }
        }
        decorate(&mut p, rng);
        if p.validity().is_err() {
            continue;
        }
        return if rng.chance(1, 2) { mirror(&p) } else { p };
    }
}

/// Few men (<= 8): cheap enough for deep reference searches.
pub fn g_small(rng: &mut Rng, max_men: i64) -> Pos {
    loop {
        let mut p = Pos::empty();
        p.stm = rng.below(2) as u8;
        let wk = rng.below(64) as u8;
        p.sq[wk as usize] = pc(WHITE, K);
        let bk = random_empty(&p, rng);
        p.sq[bk as usize] = pc(BLACK, K);
        for _ in 0..rng.range(1, max_men - 2) {
            let k = *rng.pick(&[P, P, P, N, B, R, Q]);
            let col = rng.below(2) as u8;
            place(&mut p, rng, pc(col, k));
        }
        decorate(&mut p, rng);
        if p.validity().is_ok() && !p.legal_moves().is_empty() {
            return p;
        }
    }
}

/// Many pawns one step from promotion with kings in range: the quiescence search explodes.
pub fn g_explode(rng: &mut Rng) -> Pos {
    loop {
        let mut p = Pos::empty();
        p.stm = rng.below(2) as u8;
        for f in 0..8 {
            if rng.chance(3, 4) {
                p.sq[sq(f, 6) as usize] = pc(WHITE, P);
            }
            if rng.chance(3, 4) {
                p.sq[sq(f, 1) as usize] = pc(BLACK, P);
            }
        }
        let wk = sq(rng.below(8) as i8, rng.range(2, 5) as i8);
        p.sq[wk as usize] = pc(WHITE, K);
        let bk = sq(rng.below(8) as i8, rng.range(2, 5) as i8);
        if p.sq[bk as usize] != 0 {
            continue;
        }
        p.sq[bk as usize] = pc(BLACK, K);
        for _ in 0..rng.range(0, 4) {
            let s = rng.below(64) as u8;
            if p.sq[s as usize] == 0 {
                p.sq[s as usize] = pc(rng.below(2) as u8, *rng.pick(&[N, B, R, Q]));
            }
        }
        if p.validity().is_ok() && !p.legal_moves().is_empty() {
            return p;
        }
    }
}

/// A middlegame-like position: a playout of 8..40 plies from the start or a corpus position.
pub fn g_game_pos(rng: &mut Rng) -> Pos {
    let start = if rng.chance(2, 3) { Pos::start() } else { corpus_pos(rng.below(CORPUS.len() as u64) as usize) };
    let n = rng.range(4, 40) as usize;
    let (ps, _) = playout(&start, rng, n);
    ps.last().unwrap().clone()
}

pub struct Feat {
    pub name: &'static str,
    pub hit: bool,
}

/// Feature flags of a position (computed with the oracle), for the coverage histograms.
pub fn features(p: &Pos, legal: &[Mv]) -> Vec<&'static str> {
    let mut v = vec![];
    let pseudo = p.pseudo_moves();
    if legal.iter().any(|m| m.kind == MvKind::EnPassant) {
        v.push("ep_legal");
    }
    if pseudo.iter().any(|m| m.kind == MvKind::EnPassant && !legal.contains(m)) {
        v.push("ep_refused_illegal");
    }
    if legal.iter().any(|m| m.kind == MvKind::CastleK) {
        v.push("castle_kingside_legal");
    }
    if legal.iter().any(|m| m.kind == MvKind::CastleQ) {
        v.push("castle_queenside_legal");
    }
    // rights + empty path but refused because of an attacked king / transit square
    let (home, kr, qr) = if p.stm == WHITE { (0i8, WK, WQ) } else { (7i8, BK, BQ) };
    let them = p.stm ^ 1;
    if p.castle & kr != 0 && p.sq[sq(5, home) as usize] == 0 && p.sq[sq(6, home) as usize] == 0 && !legal.iter().any(|m| m.kind == MvKind::CastleK) {
        v.push("castle_refused_attacked");
    }
    if p.castle & qr != 0
        && p.sq[sq(1, home) as usize] == 0
        && p.sq[sq(2, home) as usize] == 0
        && p.sq[sq(3, home) as usize] == 0
    {
        if !legal.iter().any(|m| m.kind == MvKind::CastleQ) {
            v.push("castle_refused_attacked");
        } else if p.attacked(sq(1, home), them) {
            v.push("castle_queenside_with_b_file_attacked");
        }
    }
    if legal.iter().any(|m| m.promo != 0) {
        v.push("promotion");
    }
    if legal.iter().any(|m| m.promo != 0 && p.sq[m.to as usize] != 0) {
        v.push("promotion_capture");
    }
    if legal.iter().any(|m| {
        m.promo != 0
            && kind(p.sq[m.to as usize]) == R
            && ((m.to == 63 && p.castle & BK != 0) || (m.to == 56 && p.castle & BQ != 0) || (m.to == 7 && p.castle & WK != 0) || (m.to == 0 && p.castle & WQ != 0))
    }) {
        v.push("promotion_captures_rook_with_right");
    }
    let checkers = p.checkers(p.stm);
    if checkers == 1 {
        v.push("single_check");
    }
    if checkers >= 2 {
        v.push("double_check");
    }
    if checkers >= 3 {
        v.push("triple_check");
    }
    if legal.is_empty() {
        v.push(if checkers > 0 { "checkmate" } else { "stalemate" });
    }
    if pseudo.iter().any(|m| kind(p.sq[m.from as usize]) != K && m.kind != MvKind::EnPassant && !legal.contains(m)) && checkers == 0 {
        v.push("pinned_piece_move_refused");
    }
    v
}

pub fn describe_moves(ms: &[Mv]) -> Vec<String> {
    let mut v: Vec<String> = ms.iter().map(|m| m.uci()).collect();
    v.sort();
    v
}

#[allow(dead_code)]
pub fn noop(_: &oracle::Pos) {}

/// Under-promotion studies: few men, a pawn one step from promotion, and promoting to a queen
/// stalemates the opponent (so a rook/bishop/knight promotion or another move is strictly better),
/// or a knight promotion gives check. Found by rejection sampling with the reference rules.
pub fn g_underpromo(rng: &mut Rng) -> Pos {
    loop {
        let mut p = Pos::empty();
        p.stm = WHITE;
        let f = rng.below(8) as i8;
        p.sq[sq(f, 6) as usize] = pc(WHITE, P);
        // the defending king close to the promotion square, the attacking king close to it
        let bk = sq((f + rng.range(-2, 2) as i8).clamp(0, 7), rng.range(5, 7) as i8);
        if p.sq[bk as usize] != 0 {
            continue;
        }
        p.sq[bk as usize] = pc(BLACK, K);
        let wk = sq((file_of(bk) + rng.range(-2, 2) as i8).clamp(0, 7), (rank_of(bk) + rng.range(-2, 0) as i8).clamp(0, 7));
        if p.sq[wk as usize] != 0 {
            continue;
        }
        p.sq[wk as usize] = pc(WHITE, K);
        for _ in 0..rng.range(0, 3) {
            let s = rng.below(64) as u8;
            if p.sq[s as usize] == 0 {
                let piece = pc(rng.below(2) as u8, *rng.pick(&[P, P, N, B, R]));
                if kind(piece) == P && (rank_of(s) == 0 || rank_of(s) == 7) {
                    continue;
                }
                p.sq[s as usize] = piece;
            }
        }
        if p.validity().is_err() {
            continue;
        }
        let legal = p.legal_moves();
        let interesting = legal.iter().any(|m| {
            if m.promo == Q {
                let n = p.make(m);
                !n.in_check() && n.legal_moves().is_empty()
            } else if m.promo == N {
                p.make(m).in_check()
            } else {
                false
            }
        });
        if !interesting {
            continue;
        }
        return if rng.chance(1, 2) { mirror(&p) } else { p };
    }
}

/// A long natural game (up to `max_plies`): captures are rare so the material lasts, and before the
/// halfmove clock reaches 140 a pawn move or capture is forced (so the game stays legal under the
/// 75-move rule). Ends early when no such move exists or the game is over.
pub fn long_game(start: &Pos, rng: &mut Rng, max_plies: usize) -> (Vec<Pos>, Vec<Mv>) {
    let mut ps = vec![start.clone()];
    let mut ms = vec![];
    let mut cur = start.clone();
    for _ in 0..max_plies {
        let legal = cur.legal_moves();
        if legal.is_empty() || cur.piece_count() <= 2 {
            break;
        }
        let irreversible: Vec<&Mv> = legal.iter().filter(|m| cur.is_capture(m) || kind(cur.sq[m.from as usize]) == P).collect();
        let m = if cur.half >= 130 {
            if irreversible.is_empty() {
                break;
            }
            **rng.pick(&irreversible)
        } else {
            let quiet: Vec<&Mv> = legal.iter().filter(|m| !cur.is_capture(m) && kind(cur.sq[m.from as usize]) != P).collect();
            if !quiet.is_empty() && rng.chance(92, 100) {
                **rng.pick(&quiet)
            } else {
                *rng.pick(&legal)
            }
        };
        cur = cur.make(&m);
        ms.push(m);
        ps.push(cur.clone());
    }
    (ps, ms)
}


/// Stalemate swindles: the side to move has a king that cannot move (and, perhaps, blocked pawns)
/// plus ONE mobile piece it can give away. Where the piece can force its own capture the game is a
/// draw by stalemate two or three plies below the root although that side is far behind in material —
/// the stalemate rule decides the value of an interior node with remaining depth.
pub fn g_stalemate_swindle(rng: &mut Rng) -> Pos {
    loop {
        let mut p = Pos::empty();
        let weak = rng.below(2) as u8;
        let strong = weak ^ 1;
        p.stm = weak;
        let (kf, kr): (i8, i8) = if rng.chance(2, 3) {
            (*rng.pick(&[0i8, 7]), *rng.pick(&[0i8, 7]))
        } else {
            match rng.below(4) {
                0 => (rng.below(8) as i8, 0),
                1 => (rng.below(8) as i8, 7),
                2 => (0, rng.below(8) as i8),
                _ => (7, rng.below(8) as i8),
            }
        };
        p.sq[sq(kf, kr) as usize] = pc(weak, K);
        let near = |p: &Pos, rng: &mut Rng, lo: i8, hi: i8| -> Option<usize> {
            for _ in 0..40 {
                let df = rng.range(-(hi as i64), hi as i64) as i8;
                let dr = rng.range(-(hi as i64), hi as i64) as i8;
                if df.abs().max(dr.abs()) < lo || !on_board(kf + df, kr + dr) {
                    continue;
                }
                let s = sq(kf + df, kr + dr) as usize;
                if p.sq[s] == 0 {
                    return Some(s);
                }
            }
            None
        };
        // the strong side: king plus one or two heavy pieces near the cornered king
        let Some(s) = near(&p, rng, 2, 3) else { continue };
        p.sq[s] = pc(strong, K);
        for _ in 0..rng.range(1, 2) {
            if let Some(s) = near(&p, rng, 1, 3) {
                p.sq[s] = pc(strong, *rng.pick(&[Q, Q, R, R, B, N]));
            }
        }
        // optionally a blocked pawn pair (the weak pawn cannot move)
        if rng.chance(1, 3) {
            let f = rng.below(8) as i8;
            let r = rng.range(2, 5) as i8;
            let (wr, sr) = if weak == WHITE { (r, r + 1) } else { (r + 1, r) };
            let (a, b) = (sq(f, wr) as usize, sq(f, sr) as usize);
            if p.sq[a] == 0 && p.sq[b] == 0 {
                p.sq[a] = pc(weak, P);
                p.sq[b] = pc(strong, P);
            }
        }
        // without the desperado the weak side must be stalemated
        if p.validity().is_err() || p.in_check() || !p.legal_moves().is_empty() {
            continue;
        }
        // the desperado
        let s = random_empty(&p, rng);
        p.sq[s as usize] = pc(weak, *rng.pick(&[R, R, Q, Q, B, N]));
        if p.validity().is_ok() && !p.legal_moves().is_empty() {
            return p;
        }
    }
}


/// Fully blocked pawn walls with the kings behind them (nothing can ever be captured or pushed):
/// iterative deepening runs through dozens of iterations per second there, so a time-limited go
/// reaches the engine's maximum depth.
pub fn g_blocked(rng: &mut Rng) -> Pos {
    loop {
        let mut p = Pos::empty();
        p.stm = rng.below(2) as u8;
        let off = rng.below(2) as i8; // files a,c,e,g or b,d,f,h
        let wr = rng.range(2, 4) as i8; // white pawns on rank index wr, black ones right in front
        for k in 0..4 {
            let f = off + 2 * k;
            p.sq[sq(f, wr) as usize] = pc(WHITE, P);
            p.sq[sq(f, wr + 1) as usize] = pc(BLACK, P);
        }
        let wk = sq(rng.below(8) as i8, rng.range(0, (wr - 1) as i64) as i8);
        let bk = sq(rng.below(8) as i8, rng.range((wr + 2) as i64, 7) as i8);
        p.sq[wk as usize] = pc(WHITE, K);
        p.sq[bk as usize] = pc(BLACK, K);
        if rng.chance(1, 3) {
            // a bishop locked behind its own wall changes nothing about the blockade
            let s = sq(rng.below(8) as i8, 0);
            if p.sq[s as usize] == 0 {
                p.sq[s as usize] = pc(WHITE, B);
            }
        }
        if p.validity().is_ok() && !p.legal_moves().is_empty() {
            return p;
        }
    }
}


// ------------------------------------------------------------------------------------------------
// Slider-table sweep: one position per (square, rook|bishop, occupancy of the relevant ray squares).
// A magic-bitboard engine answers every slider question from a table indexed by exactly that
// triple; random play reaches a small part of the ~108 000 entries, this generator reaches all of
// them inside valid positions (the C01 quantifier is over all valid positions).

/// the squares of each ray from `s` (rook or bishop directions), nearest first
fn rays_from(s: u8, rook: bool) -> Vec<Vec<u8>> {
    let dirs: [(i8, i8); 4] = if rook { [(1, 0), (0, 1), (-1, 0), (0, -1)] } else { [(1, 1), (-1, 1), (-1, -1), (1, -1)] };
    let mut out = vec![];
    for (df, dr) in dirs {
        let mut v = vec![];
        let (mut f, mut r) = (file_of(s) + df, rank_of(s) + dr);
        while on_board(f, r) {
            v.push(sq(f, r));
            f += df;
            r += dr;
        }
        out.push(v);
    }
    out
}

/// (relevant squares: every ray square but the last of its ray; the last squares)
pub fn slider_relevant(s: u8, rook: bool) -> (Vec<u8>, Vec<u8>) {
    let mut rel = vec![];
    let mut edge = vec![];
    for ray in rays_from(s, rook) {
        for (i, x) in ray.iter().enumerate() {
            if i + 1 == ray.len() {
                edge.push(*x);
            } else {
                rel.push(*x);
            }
        }
    }
    (rel, edge)
}

/// number of table entries of the sweep (sum over squares and both slider kinds of 2^relevant)
pub fn slider_entry_count() -> u64 {
    let mut n = 0u64;
    for s in 0..64u8 {
        for rook in [true, false] {
            n += 1u64 << slider_relevant(s, rook).0.len();
        }
    }
    n
}

/// the i-th entry: (square, rook?, subset of the relevant squares)
pub fn slider_entry(mut i: u64) -> (u8, bool, u32) {
    for s in 0..64u8 {
        for rook in [true, false] {
            let n = 1u64 << slider_relevant(s, rook).0.len();
            if i < n {
                return (s, rook, i as u32);
            }
            i -= n;
        }
    }
    (0, true, 0)
}

/// A valid position in which a rook, bishop or queen stands on `s` and the relevant squares of its rays are
/// occupied exactly as `subset` says (random pieces of both colours as blockers, the last square of each ray
/// and the rest of the board random). None when no valid arrangement was found in a few attempts.
pub fn g_slider_entry(s: u8, rook: bool, subset: u32, exposing: bool, rng: &mut Rng) -> Option<Pos> {
    let (rel, edge) = slider_relevant(s, rook);
    for attempt in 0..12 {
        let mut p = Pos::empty();
        p.stm = rng.below(2) as u8;
        // exposing arrangement: the slider (a plain rook or bishop, so only this geometry's entry is read)
        // belongs to the side to move, every piece on its rays is an enemy piece other than the king, the
        // mover is not in check: every square of the entry — right or wrong — is then a move or a capture,
        // so any difference between the entry and the true attack set shows in the move list.
        // otherwise: two thirds the slider belongs to the side to move; else to the opponent (attack
        // detection, pins, king danger squares read the entry), blockers of both colours, kings among them
        let owner = if exposing || rng.chance(2, 3) { p.stm } else { p.stm ^ 1 };
        let k = if !exposing && rng.chance(1, 3) { Q } else if rook { R } else { B };
        p.sq[s as usize] = pc(owner, k);
        let mut kings_left = vec![WHITE, BLACK];
        let mut put = |p: &mut Pos, x: u8, rng: &mut Rng| {
            let col = if exposing { owner ^ 1 } else { rng.below(2) as u8 };
            // now and then a king is the blocker
            if !exposing && !kings_left.is_empty() && rng.chance(1, 12) {
                let kc = kings_left.remove(rng.below(kings_left.len() as u64) as usize);
                p.sq[x as usize] = pc(kc, K);
                return;
            }
            let mut kd = *rng.pick(&[P, P, P, N, N, B, R, Q]);
            if kd == P && (rank_of(x) == 0 || rank_of(x) == 7) {
                kd = N;
            }
            p.sq[x as usize] = pc(col, kd);
        };
        for (i, x) in rel.iter().enumerate() {
            if subset >> i & 1 == 1 {
                put(&mut p, *x, rng);
            }
        }
        for x in edge.iter() {
            if rng.chance(1, 2) {
                put(&mut p, *x, rng);
            }
        }
        // a few pieces elsewhere (never on the rays: the entry under test must stay the one asked for)
        let on_rays: Vec<u8> = rel.iter().chain(edge.iter()).copied().collect();
        let free: Vec<u8> = (0..64u8).filter(|x| *x != s && !on_rays.contains(x)).collect();
        for _ in 0..rng.below(5) {
            let x = *rng.pick(&free);
            if p.sq[x as usize] == 0 {
                let col = rng.below(2) as u8;
                let mut kd = *rng.pick(&[P, P, N, B, R, Q]);
                if kd == P && (rank_of(x) == 0 || rank_of(x) == 7) {
                    kd = N;
                }
                p.sq[x as usize] = pc(col, kd);
            }
        }
        // the kings not used as blockers: off the rays, the king of the side NOT to move on a square
        // where it is not in check (a few attempts)
        let mut ok = true;
        for kc in kings_left.clone() {
            let mut placed = false;
            for _ in 0..24 {
                let x = *rng.pick(&free);
                if p.sq[x as usize] != 0 {
                    continue;
                }
                p.sq[x as usize] = pc(kc, K);
                if kc != p.stm && p.validity().is_err() && kings_left.len() == 1 {
                    p.sq[x as usize] = 0;
                    continue;
                }
                placed = true;
                break;
            }
            if !placed {
                ok = false;
                break;
            }
            kings_left.retain(|c| *c != kc);
        }
        if !ok {
            continue;
        }
        decorate(&mut p, rng);
        if p.validity().is_ok() {
            // the exposing arrangement wants a mover who is neither in check nor has the slider pinned:
            // retry a few times, then take what there is
            if exposing && attempt < 8 {
                let expected = slider_reach(&p, s, rook);
                let got = p.legal_moves().iter().filter(|m| m.from == s).count();
                if p.in_check() || got != expected {
                    continue;
                }
            }
            return Some(p);
        }
    }
    None
}

/// number of squares a rook/bishop on `s` reaches in `p` (empty squares and the first enemy piece of each ray)
fn slider_reach(p: &Pos, s: u8, rook: bool) -> usize {
    let me = color(p.sq[s as usize]);
    let mut n = 0;
    for ray in rays_from(s, rook) {
        for x in ray {
            let q = p.sq[x as usize];
            if q == 0 {
                n += 1;
            } else {
                if color(q) != me {
                    n += 1;
                }
                break;
            }
        }
    }
    n
}


/// Batteries: a slider of the strong side aimed at the (cornered or edge) king of the weak side with exactly
/// one strong piece in between that can step off the line — discovered checks and discovered mates, the
/// checks a "does the moved piece attack the king" shortcut does not see. The weak king's flight squares are
/// partly blocked by its own men; a few random extras (often loose pieces) complete the position. Either side
/// to move.
pub fn g_battery(rng: &mut Rng) -> Pos {
    loop {
        let mut p = Pos::empty();
        let weak = rng.below(2) as u8;
        let strong = weak ^ 1;
        p.stm = rng.below(2) as u8;
        let (kf, kr): (i8, i8) = if rng.chance(1, 2) {
            (*rng.pick(&[0i8, 7]), *rng.pick(&[0i8, 7]))
        } else {
            match rng.below(4) {
                0 => (rng.below(8) as i8, 0),
                1 => (rng.below(8) as i8, 7),
                2 => (0, rng.below(8) as i8),
                _ => (7, rng.below(8) as i8),
            }
        };
        let ks = sq(kf, kr);
        p.sq[ks as usize] = pc(weak, K);
        let dirs: [(i8, i8); 8] = [(1, 0), (0, 1), (-1, 0), (0, -1), (1, 1), (-1, 1), (-1, -1), (1, -1)];
        let (df, dr) = *rng.pick(&dirs);
        let mut ray = vec![];
        let (mut f, mut r) = (kf + df, kr + dr);
        while on_board(f, r) {
            ray.push(sq(f, r));
            f += df;
            r += dr;
        }
        if ray.len() < 2 {
            continue;
        }
        let i = rng.below(ray.len() as u64 - 1) as usize;
        let j = i + 1 + rng.below((ray.len() - i - 1) as u64) as usize;
        let orth = df == 0 || dr == 0;
        let back = if rng.chance(1, 3) { Q } else if orth { R } else { B };
        let front = *rng.pick(&[P, P, N, N, if orth { B } else { R }, K]);
        if front == P && (rank_of(ray[i]) == 0 || rank_of(ray[i]) == 7) {
            continue;
        }
        p.sq[ray[j] as usize] = pc(strong, back);
        p.sq[ray[i] as usize] = pc(strong, front);
        // the weak king's neighbourhood: own men on some flight squares
        for (nf, nr) in dirs.iter().map(|(a, b)| (kf + a, kr + b)) {
            if !on_board(nf, nr) {
                continue;
            }
            let s = sq(nf, nr);
            if p.sq[s as usize] == 0 && !ray.contains(&s) && rng.chance(1, 2) {
                let mut k = *rng.pick(&[P, P, N, B, R]);
                if k == P && (nr == 0 || nr == 7) {
                    k = N;
                }
                p.sq[s as usize] = pc(weak, k);
            }
        }
        if front != K {
            place(&mut p, rng, pc(strong, K));
        }
        // extras: loose pieces of both sides (a capture that wins material raises the bar for the rest
        // of the node's moves), more strong men covering squares
        for _ in 0..rng.below(6) {
            let col = if rng.chance(1, 2) { weak } else { strong };
            let k = *rng.pick(&[P, P, N, B, R, Q]);
            let s = place(&mut p, rng, pc(col, k));
            if ray[..=j].contains(&s) {
                p.sq[s as usize] = 0; // keep the line itself clear
            }
        }
        decorate(&mut p, rng);
        if p.validity().is_ok() && p.legal_moves().len() >= 2 {
            return p;
        }
    }
}


/// a move that neither captures nor promotes and gives check by uncovering another piece's line
pub fn quiet_discovered_check(p: &Pos, m: &Mv) -> bool {
    if p.is_capture(m) || m.promo != 0 {
        return false;
    }
    let mut n = p.make(m);
    if !n.in_check() {
        return false;
    }
    if kind(n.sq[m.to as usize]) == K {
        return true;
    }
    n.sq[m.to as usize] = 0;
    n.in_check()
}

/// A battery position with the WEAK side to move in which, after at least one of its moves, the strong side
/// has both a capture of a piece (knight or better) and a quiet discovered-check MATE: the node one ply
/// above the horizon where a material gain found first raises the bar and the mate has to be found after it.
pub fn g_battery_loaded(rng: &mut Rng) -> Pos {
    for _ in 0..600 {
        let mut p = g_battery(rng);
        let weak_king_in_corner_side = p.stm;
        let _ = weak_king_in_corner_side;
        // make the side whose king is the battery's target the mover: the generator chose sides at random,
        // so test both readings
        for _ in 0..2 {
            if p.validity().is_ok() && !p.in_check() {
                let good = p.legal_moves().iter().any(|m| {
                    let n = p.make(m);
                    let nl = n.legal_moves();
                    let cap = nl.iter().any(|r| n.is_capture(r) && matches!(kind(n.sq[r.to as usize]), N | B | R | Q));
                    cap && nl.iter().any(|r| quiet_discovered_check(&n, r) && {
                        let a = n.make(r);
                        a.legal_moves().is_empty()
                    })
                });
                if good {
                    return p;
                }
            }
            p.stm ^= 1;
            p.ep = NO_EP;
        }
    }
    g_battery(rng)
}


/// The position BEFORE a double pawn step after which the opponent has no legal move although an en-passant
/// capture of that pawn is pseudo-legal (the capturer is pinned, or the capture does not lift the check):
/// checkmate (mostly) or stalemate delivered by a double step. The terminal test of that node runs right
/// after move generation has tried — and refused — the en-passant capture on a board with the pawn removed,
/// so anything remembered from that trial (checkers, pins) is about a different board.
/// Returns (position before the step, the step in UCI notation).
pub fn g_ep_terminal(rng: &mut Rng) -> Option<(Pos, String)> {
    for _ in 0..60_000 {
        let p = g_ep(rng);
        if !p.legal_moves().is_empty() {
            continue;
        }
        // un-push: the pawn that just made the double step goes back to its starting square
        let them = p.stm ^ 1;
        let (from_rank, to_rank) = if them == WHITE { (1, 3) } else { (6, 4) };
        let f = file_of(p.ep);
        let mut q = p.clone();
        if q.sq[sq(f, to_rank) as usize] != pc(them, P) || q.sq[sq(f, from_rank) as usize] != 0 {
            continue;
        }
        q.sq[sq(f, to_rank) as usize] = 0;
        q.sq[sq(f, from_rank) as usize] = pc(them, P);
        q.stm = them;
        q.ep = NO_EP;
        if q.validity().is_err() {
            continue;
        }
        let u = format!("{}{}", sq_name(sq(f, from_rank)), sq_name(sq(f, to_rank)));
        if q.find_uci(&u).is_none() {
            continue;
        }
        return Some((q, u));
    }
    None
}


/// En-passant studies in which the en-passant capture itself is checkmate (by the capturing pawn, or by a
/// line the two vanishing pawns open). With extra attacking material for the capturing side other moves often
/// force mate a little later — the en-passant mate in one must still be the answer.
pub fn g_ep_mate(rng: &mut Rng) -> Option<Pos> {
    for _ in 0..40_000 {
        let mut p = g_ep(rng);
        // more attackers for the side to move
        for _ in 0..rng.below(4) {
            let k = *rng.pick(&[Q, R, R, B, N]);
            let s = random_empty(&p, rng);
            if s != p.ep {
                p.sq[s as usize] = pc(p.stm, k);
            }
        }
        if p.validity().is_err() || p.in_check() {
            continue;
        }
        let mates = p.legal_moves().into_iter().any(|m| {
            m.kind == MvKind::EnPassant && {
                let n = p.make(&m);
                n.in_check() && n.legal_moves().is_empty()
            }
        });
        if mates {
            return Some(p);
        }
    }
    None
}
