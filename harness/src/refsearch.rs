//! Reference search: plain minimax, no pruning, no ordering.
