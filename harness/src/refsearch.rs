//! Reference search: plain minimax, no pruning, no ordering, no cache shared with the engine.
//!
//! The tree is walked with the *reference rules* (oracle::Pos). Interior positions without a legal
//! move are scored by the rules (checkmated = Loss, stalemate = 0). Leaves (remaining depth 0) are
//! scored by the engine's own quiescence search on a full window — property C05 defines the
//! reference that way ("leaves scored by the engine's own quiescence evaluation"). Values live in
//! three classes Loss < Num(x) < Win; numbers at or beyond the search window are Win/Loss, which is
//! C05's "forced mates are compared as won/lost".
use crate::board::Board;
use crate::oracle::{Mv, Pos, PosKey};
use crate::report::engine_call;
use crate::search::Searcher;
use std::collections::HashMap;

#[derive(Clone, Copy, PartialEq, Eq, PartialOrd, Ord, Debug, Hash)]
pub enum Val {
    Loss,
    Num(i32),
    Win,
}

impl Val {
    pub fn neg(self) -> Val {
        match self {
            Val::Loss => Val::Win,
            Val::Win => Val::Loss,
            Val::Num(x) => Val::Num(-x),
        }
    }
    pub fn show(self) -> String {
        match self {
            Val::Loss => "LOSS".into(),
            Val::Win => "WIN".into(),
            Val::Num(x) => x.to_string(),
        }
    }
}

/// The engine's window is (-32767, 32767); anything at or beyond it is a forced mate.
pub fn class(score: i32) -> Val {
    let (lo, hi) = Searcher::verif_window();
    if score <= lo {
        Val::Loss
    } else if score >= hi {
        Val::Win
    } else {
        Val::Num(score)
    }
}

#[derive(Debug)]
pub enum Skip {
    /// the reference tree has more leaves than the budget allows
    TooManyLeaves,
    /// one quiescence search exceeded its node budget (treated as "not finite" for this run)
    QuiescenceTooBig,
}

pub struct RefSearch {
    /// a private engine instance used *only* for its quiescence search (never the one under test)
    q: Searcher,
    memo: HashMap<(PosKey, u8), Val>,
    qmemo: HashMap<PosKey, Val>,
    pub leaves: u64,
    pub leaf_budget: u64,
    pub q_node_budget: u64,
    pub max_q_nodes: u64,
    /// quiescence nodes spent since the last reset, and the budget for them (bounds the time of one reference computation)
    pub q_nodes_total: u64,
    pub q_total_budget: u64,
    /// stalemate / checkmate positions met as interior nodes (remaining depth >= 1) since the last reset
    pub stalemates_inside: u64,
    pub mates_inside: u64,
    /// coverage probe only: score a stalemated side as lost, to see whether a value rests on the stalemate rule
    pub stalemate_as_loss: bool,
}

impl RefSearch {
    pub fn new(leaf_budget: u64, q_node_budget: u64) -> RefSearch {
        RefSearch { q: Searcher::new(), memo: HashMap::new(), qmemo: HashMap::new(), leaves: 0, leaf_budget, q_node_budget, max_q_nodes: 0, q_nodes_total: 0, q_total_budget: leaf_budget.saturating_mul(25), stalemates_inside: 0, mates_inside: 0, stalemate_as_loss: false }
    }

    pub fn reset(&mut self) {
        self.memo.clear();
        self.qmemo.clear();
        self.leaves = 0;
        self.q_nodes_total = 0;
        self.stalemates_inside = 0;
        self.mates_inside = 0;
    }

    /// forget interior values but keep the leaf values (used to re-evaluate a tree under the
    /// stalemate_as_loss probe)
    pub fn clear_interior(&mut self) {
        self.memo.clear();
    }

    /// Full-window quiescence value of `p` by the engine's own quiescence search.
    pub fn leaf(&mut self, p: &Pos) -> Result<Val, Skip> {
        let k = p.key();
        if let Some(v) = self.qmemo.get(&k) {
            return Ok(*v);
        }
        self.leaves += 1;
        if self.leaves > self.leaf_budget || self.q_nodes_total > self.q_total_budget {
            return Err(Skip::TooManyLeaves);
        }
        let b = Board::new(&p.to_fen());
        let (lo, hi) = Searcher::verif_window();
        let before = self.q.verif_nodes();
        self.q.verif_timer().hard_cap = Some(before + self.q_node_budget);
        let r = {
            let q = &mut self.q;
            engine_call(|| q.verif_quiesce(&b, lo, hi))
        };
        match r {
            Ok(s) => {
                let used = self.q.verif_nodes() - before;
                self.q_nodes_total += used;
                if used > self.max_q_nodes {
                    self.max_q_nodes = used;
                }
                let v = class(s);
                self.qmemo.insert(k, v);
                Ok(v)
            }
            Err(_) => {
                // the cap fired (or the engine panicked for another reason, which the monitor that
                // drives the engine under test will see for itself): start from a clean instance
                self.q = Searcher::new();
                Err(Skip::QuiescenceTooBig)
            }
        }
    }

    /// Minimax value of `p` with `depth` plies of full-width search above the quiescence leaves.
    pub fn value(&mut self, p: &Pos, depth: u8) -> Result<Val, Skip> {
        if depth == 0 {
            return self.leaf(p);
        }
        let k = (p.key(), depth);
        if let Some(v) = self.memo.get(&k) {
            return Ok(*v);
        }
        let legal = p.legal_moves();
        let v = if legal.is_empty() {
            if p.in_check() {
                self.mates_inside += 1;
                Val::Loss
            } else {
                self.stalemates_inside += 1;
                if self.stalemate_as_loss {
                    Val::Loss
                } else {
                    Val::Num(0)
                }
            }
        } else {
            let mut best = Val::Loss;
            for m in legal.iter() {
                let c = self.value(&p.make(m), depth - 1)?.neg();
                if c > best {
                    best = c;
                }
            }
            best
        };
        self.memo.insert(k, v);
        Ok(v)
    }

    /// Value of playing `m` in `p` when `depth` plies remain at `p`.
    pub fn move_value(&mut self, p: &Pos, m: &Mv, depth: u8) -> Result<Val, Skip> {
        Ok(self.value(&p.make(m), depth - 1)?.neg())
    }
}
