//! Deterministic per-worker random streams derived from VERIF_SEED.
#[derive(Clone)]
pub struct Rng(u64);

fn splitmix(x: &mut u64) -> u64 {
    *x = x.wrapping_add(0x9E37_79B9_7F4A_7C15);
    let mut z = *x;
    z = (z ^ (z >> 30)).wrapping_mul(0xBF58_476D_1CE4_E5B9);
    z = (z ^ (z >> 27)).wrapping_mul(0x94D0_49BB_1331_11EB);
    z ^ (z >> 31)
}

impl Rng {
    pub fn new(seed: u64, stream: u64) -> Rng {
        let mut s = seed.wrapping_mul(0xD6E8_FEB8_6659_FD93) ^ stream.wrapping_mul(0xA24B_AED4_963E_E407) ^ 0x5DEE_CE66_D123;
        let a = splitmix(&mut s);
        let b = splitmix(&mut s);
        Rng((a ^ b.rotate_left(17)) | 1)
    }
    #[inline]
    pub fn next(&mut self) -> u64 {
        let mut x = self.0;
        x ^= x >> 12;
        x ^= x << 25;
        x ^= x >> 27;
        self.0 = x;
        x.wrapping_mul(0x2545_F491_4F6C_DD1D)
    }
    /// uniform in 0..n (n > 0)
    #[inline]
    pub fn below(&mut self, n: u64) -> u64 {
        ((self.next() >> 11) as u128 * n as u128 >> 53) as u64
    }
    #[inline]
    pub fn range(&mut self, lo: i64, hi_incl: i64) -> i64 {
        lo + self.below((hi_incl - lo + 1) as u64) as i64
    }
    #[inline]
    pub fn chance(&mut self, num: u64, den: u64) -> bool {
        self.below(den) < num
    }
    pub fn pick<'a, T>(&mut self, v: &'a [T]) -> &'a T {
        &v[self.below(v.len() as u64) as usize]
    }
    pub fn shuffle<T>(&mut self, v: &mut [T]) {
        for i in (1..v.len()).rev() {
            let j = self.below(i as u64 + 1) as usize;
            v.swap(i, j);
        }
    }
}

pub fn hash64<T: std::hash::Hash>(t: &T) -> u64 {
    use std::hash::Hasher;
    let mut h = std::collections::hash_map::DefaultHasher::new();
    t.hash(&mut h);
    h.finish()
}
