//! fverif — runtime-monitoring harness for the Flounder chess engine.
//!
//! The engine's own sources are compiled into this crate (see build.rs) with `cfg(flounder_verif)`
//! on, overflow checks and debug assertions enabled and panic=unwind, so that every arithmetic
//! overflow, out-of-range index or unwrap inside engine code is an observable event.
#![allow(dead_code, unused_imports, clippy::all)]

include!(concat!(env!("OUT_DIR"), "/engine_mods.rs"));

#[macro_use]
pub mod report;
pub mod bb;
pub mod eng;
pub mod gen;
pub mod json;
pub mod miri;
pub mod oracle;
pub mod props;
pub mod refsearch;
pub mod rng;

use report::{Ctx, Tier};
use std::path::PathBuf;
use std::time::{Duration, Instant};

fn usage() -> ! {
    eprintln!("usage: fverif run <C01..C17> [--tier quick|thorough] [--seed N] [--replay FILE] | fverif selftest");
    std::process::exit(2);
}

fn main() {
    let args: Vec<String> = std::env::args().collect();
    if args.len() < 2 {
        usage();
    }
    if args[1] == "miri" {
        // before any signal handler or descriptor juggling: this entry point runs under the interpreter
        let id = args.get(2).cloned().unwrap_or_default();
        let seed = args.get(3).and_then(|s| s.parse::<u64>().ok()).unwrap_or(1);
        let scale = args.get(4).and_then(|s| s.parse::<u64>().ok()).unwrap_or(1);
        std::process::exit(miri::run(&id, seed, scale));
    }
    report::install_panic_hook();
    report::install_fatal_signal_journal();
    match args[1].as_str() {
        "sweepdump" => {
            // debugging aid: the positions the slider-table sweep builds for one entry
            let sq: u8 = args[2].parse().unwrap();
            let rook = args[3] == "rook";
            let subset: u32 = args[4].parse().unwrap();
            let mut rng = rng::Rng::new(1, 1);
            for _ in 0..8 {
                match gen::g_slider_entry(sq, rook, subset, true, &mut rng) {
                    Some(p) => println!("{}", p.to_fen()),
                    None => println!("none"),
                }
            }
            std::process::exit(0);
        }
        "selftest" => {
            report::init_output();
            let code = match selftest() {
                Ok(()) => {
                    say!("selftest ok");
                    0
                }
                Err(e) => {
                    say!("INCONCLUSIVE: selftest failed: {}", e);
                    2
                }
            };
            std::process::exit(code);
        }
        "debug-far" => {
            let mut rng = rng::Rng::new(1, 1);
            for _ in 0..5 {
                let g = props::position::far_repeat_game(&mut rng);
                eprintln!("{:?}", g.map(|g| (g.moves.len(), g.command(None))));
            }
            std::process::exit(0);
        }
        "debug-c06" => {
            // fverif debug-c06 <fen> <depth> <later depth> <cut>... : interrupted searches then a completed one, engine info lines visible
            let fen = args[2].clone();
            let d: u8 = args[3].parse().unwrap();
            let later: u8 = args[4].parse().unwrap();
            let b = board::Board::new(&fen);
            let mut s = search::Searcher::new();
            for c in args[5..].iter() {
                s.verif_timer().node_limit = Some(c.parse().unwrap());
                let r = s.find_best_move(&b, d, None);
                println!("deeper reuse so far {}", s.verif.tt_returned_deeper);
                println!("interrupted at {} -> {:?} nodes {} tt entries {}", c, (r.0, r.1.map(|m| m.to_algebraic())), s.verif_nodes(), s.verif_tt_entries().len());
                let h = s.verif_hash(&b);
                for e in s.verif_tt_entries() {
                    if e.hash_key == h { println!("  root entry: {:?}", e); }
                }
            }
            s.verif_timer().node_limit = None;
            let r = if std::env::var("FIXED").is_ok() { s.verif_search_fixed(&b, later) } else { s.find_best_move(&b, later, None) };
            println!("completed depth {} -> {:?}; deeper reuse in total {}", later, (r.0, r.1.map(|m| m.to_algebraic())), s.verif.tt_returned_deeper);
            let mut f = search::Searcher::new();
            let r = f.find_best_move(&b, later, None);
            println!("fresh engine depth {} -> {:?}", later, (r.0, r.1.map(|m| m.to_algebraic())));
            std::process::exit(0);
        }
        "run" => {}
        _ => usage(),
    }
    if args.len() < 3 {
        usage();
    }
    let id = args[2].clone();
    let mut tier = match std::env::var("VERIF_TIER").as_deref() {
        Ok("thorough") => Tier::Thorough,
        _ => Tier::Quick,
    };
    let mut seed: u64 = std::env::var("VERIF_SEED").ok().and_then(|s| s.trim().parse::<i64>().ok()).map(|x| x as u64).unwrap_or(1);
    let mut replay = None;
    let mut i = 3;
    while i < args.len() {
        match args[i].as_str() {
            "--tier" => {
                tier = if args.get(i + 1).map(|s| s.as_str()) == Some("thorough") { Tier::Thorough } else { Tier::Quick };
                i += 2;
            }
            "--seed" => {
                seed = args.get(i + 1).and_then(|s| s.parse::<i64>().ok()).map(|x| x as u64).unwrap_or(seed);
                i += 2;
            }
            "--replay" => {
                let path = args.get(i + 1).cloned().unwrap_or_default();
                match std::fs::read_to_string(&path).map_err(|e| e.to_string()).and_then(|t| json::parse(&t)) {
                    Ok(j) => replay = Some(j),
                    Err(e) => {
                        eprintln!("cannot read replay {}: {}", path, e);
                        std::process::exit(2);
                    }
                }
                i += 2;
            }
            _ => usage(),
        }
    }
    let verif_dir = PathBuf::from(std::env::var("VERIF_DIR").unwrap_or_else(|_| "/verif".into()));
    let engine_bin = PathBuf::from(
        std::env::var("FLOUNDER_BIN").unwrap_or_else(|_| verif_dir.join("target/engine/release/flounder").display().to_string()),
    );
    let scale = std::env::var("VERIF_SCALE").ok().and_then(|s| s.parse::<f64>().ok()).unwrap_or(1.0);
    let workers = std::env::var("VERIF_WORKERS")
        .ok()
        .and_then(|s| s.parse::<usize>().ok())
        .unwrap_or_else(|| std::thread::available_parallelism().map(|n| n.get()).unwrap_or(4).min(16));
    let out_dir = std::env::var("VERIF_OUT").map(PathBuf::from).unwrap_or_else(|_| verif_dir.clone());
    let ctx = Ctx {
        out_dir,
        id: id.clone(),
        tier,
        seed,
        start: Instant::now(),
        workers,
        verif_dir,
        engine_bin,
        replay,
        scale,
        soft_limit: Duration::from_secs(std::env::var("VERIF_SOFT_LIMIT").ok().and_then(|s| s.parse::<u64>().ok()).unwrap_or(if tier == Tier::Quick { 150 } else { 1500 })),
    };
    report::init_output();
    report::start_hang_monitor(&ctx);
    // global watchdog: a run that takes several times its budget is inconclusive, never a violation
    let hard = if tier == Tier::Quick { 900 } else { 7200 };
    let wid = id.clone();
    std::thread::spawn(move || {
        std::thread::sleep(Duration::from_secs(hard));
        say!("INCONCLUSIVE: watchdog expired after {} s while checking {}", hard, wid);
        std::process::exit(2);
    });
    let code = match std::panic::catch_unwind(std::panic::AssertUnwindSafe(|| props::run(&ctx))) {
        Ok(c) => c,
        Err(_) => {
            say!("INCONCLUSIVE: harness error (internal panic) while checking {}", id);
            2
        }
    };
    std::process::exit(code);
}

pub fn selftest() -> Result<(), String> {
    oracle::self_test()?;
    for (i, fen) in gen::CORPUS.iter().enumerate() {
        let p = oracle::Pos::from_fen(fen).map_err(|e| format!("corpus[{}] {}: {}", i, fen, e))?;
        p.validity().map_err(|e| format!("corpus[{}] {} is not valid: {}", i, fen, e))?;
    }
    Ok(())
}
