//! Black-box driver for the real release binary (hooks off).
