//! Black-box driver for the real release binary (hooks off): the artefact a user runs.
//!
//! `Engine` keeps one process alive and delimits each command's output with a trailing
//! `isready`/`readyok` pair. `run_stream` feeds a whole byte stream, closes stdin and collects
//! stdout, the exit status and — through strace — the read(0, ..) system calls made after the end
//! of input. CPU time comes from /proc/<pid>/stat (utime + stime).
use std::io::{BufRead, BufReader, Read, Write};
use std::path::{Path, PathBuf};
use std::process::{Child, ChildStdin, Command, Stdio};
use std::sync::mpsc::{channel, Receiver, RecvTimeoutError};
use std::time::{Duration, Instant};

#[derive(Debug)]
pub enum Fail {
    /// no complete answer within the watchdog (inconclusive by itself)
    Timeout,
    /// the process ended (exit status / signal in the text)
    Died(String),
}

pub struct Engine {
    child: Child,
    stdin: Option<ChildStdin>,
    rx: Receiver<String>,
    pub pid: u32,
}

impl Engine {
    pub fn spawn(bin: &Path) -> Result<Engine, String> {
        if std::env::var("VERIF_NO_BLACKBOX").is_ok() {
            return Err("black-box parts are skipped in the sanitizer pass (the release binary is not instrumented)".into());
        }
        let mut child = Command::new(bin).stdin(Stdio::piped()).stdout(Stdio::piped()).stderr(Stdio::null()).spawn().map_err(|e| format!("{}: {}", bin.display(), e))?;
        let stdout = child.stdout.take().ok_or("no stdout")?;
        let stdin = child.stdin.take();
        let (tx, rx) = channel();
        std::thread::spawn(move || {
            let r = BufReader::new(stdout);
            for line in r.lines() {
                match line {
                    Ok(l) => {
                        if tx.send(l).is_err() {
                            break;
                        }
                    }
                    Err(_) => break,
                }
            }
        });
        let pid = child.id();
        Ok(Engine { child, stdin, rx, pid })
    }

    pub fn send(&mut self, line: &str) -> Result<(), Fail> {
        let s = self.stdin.as_mut().ok_or_else(|| Fail::Died("stdin closed".into()))?;
        if s.write_all(line.as_bytes()).and_then(|_| s.write_all(b"\n")).and_then(|_| s.flush()).is_err() {
            return Err(Fail::Died(self.status_text()));
        }
        Ok(())
    }

    fn status_text(&mut self) -> String {
        // give the process a moment to be reaped
        for _ in 0..50 {
            if let Ok(Some(st)) = self.child.try_wait() {
                return describe_status(&st);
            }
            std::thread::sleep(Duration::from_millis(10));
        }
        "still running but not reading".into()
    }

    /// Lines printed until `readyok` (exclusive). Err(Timeout) when the watchdog expires first.
    pub fn read_until_readyok(&mut self, watchdog: Duration) -> Result<Vec<String>, Fail> {
        let deadline = Instant::now() + watchdog;
        let mut out = vec![];
        loop {
            let left = deadline.saturating_duration_since(Instant::now());
            match self.rx.recv_timeout(left) {
                Ok(l) => {
                    if l.trim() == "readyok" {
                        return Ok(out);
                    }
                    out.push(l);
                }
                Err(RecvTimeoutError::Timeout) => return Err(Fail::Timeout),
                Err(RecvTimeoutError::Disconnected) => {
                    let tail: Vec<String> = out.iter().rev().take(2).rev().map(|l| l.chars().take(120).collect::<String>()).collect();
                    return Err(Fail::Died(format!("{} (after {} lines of output, the last ones: {:?})", self.status_text(), out.len(), tail)));
                }
            }
        }
    }

    /// Send one command followed by `isready`; return what was printed before `readyok`.
    pub fn command(&mut self, line: &str, watchdog: Duration) -> Result<Vec<String>, Fail> {
        self.send(line)?;
        self.send("isready")?;
        self.read_until_readyok(watchdog)
    }

    /// After a watchdog expired: is the process merely waiting for input? True when it used (almost) no CPU
    /// over the next 1.2 s and the kernel reports it sleeping — its search is over, so an answer that has not
    /// arrived by now is not going to arrive (it was never printed, or sits in an unflushed buffer).
    pub fn idle_after_timeout(&self) -> bool {
        let c0 = self.cpu_ms();
        std::thread::sleep(Duration::from_millis(1200));
        let c1 = self.cpu_ms();
        let state = std::fs::read_to_string(format!("/proc/{}/stat", self.pid)).ok().and_then(|t| t.rsplit(')').next().map(|r| r.trim().chars().next().unwrap_or('?'))).unwrap_or('?');
        c1.saturating_sub(c0) <= 10 && state == 'S'
    }

    /// Injected delay: stop the process (SIGSTOP) for `ms` milliseconds of wall time, then let it go on.
    /// Nothing it computes may depend on that; only wall-clock deadlines see it.
    pub fn pause(&self, ms: u64) {
        let pid = self.pid.to_string();
        let _ = Command::new("kill").args(["-STOP", &pid]).status();
        std::thread::sleep(Duration::from_millis(ms));
        let _ = Command::new("kill").args(["-CONT", &pid]).status();
    }

    /// Send one command followed by `isready`, pause the process for `pause_ms` after `after_ms`, and
    /// return what was printed before `readyok`.
    pub fn command_with_pause(&mut self, line: &str, after_ms: u64, pause_ms: u64, watchdog: Duration) -> Result<Vec<String>, Fail> {
        self.send(line)?;
        self.send("isready")?;
        std::thread::sleep(Duration::from_millis(after_ms));
        self.pause(pause_ms);
        self.read_until_readyok(watchdog)
    }

    /// utime + stime of the process in milliseconds
    pub fn cpu_ms(&self) -> u64 {
        cpu_ms_of(self.pid)
    }

    /// Send quit, wait for the exit status (killing after the watchdog).
    pub fn quit(mut self) -> String {
        let _ = self.send("quit");
        self.stdin = None;
        self.wait_exit(Duration::from_secs(10))
    }

    /// Close stdin (end of input) and wait.
    pub fn close_and_wait(mut self, watchdog: Duration) -> String {
        self.stdin = None;
        self.wait_exit(watchdog)
    }

    fn wait_exit(&mut self, watchdog: Duration) -> String {
        let deadline = Instant::now() + watchdog;
        loop {
            match self.child.try_wait() {
                Ok(Some(st)) => return describe_status(&st),
                Ok(None) => {
                    if Instant::now() > deadline {
                        let _ = self.child.kill();
                        let _ = self.child.wait();
                        return "killed by the watchdog".into();
                    }
                    std::thread::sleep(Duration::from_millis(5));
                }
                Err(e) => return format!("wait failed: {}", e),
            }
        }
    }
}

impl Drop for Engine {
    fn drop(&mut self) {
        self.stdin = None;
        if let Ok(None) = self.child.try_wait() {
            // an engine that honours end of input exits by itself; do not leave strays behind
            std::thread::sleep(Duration::from_millis(20));
            if let Ok(None) = self.child.try_wait() {
                let _ = self.child.kill();
            }
        }
        let _ = self.child.wait();
    }
}

pub fn describe_status(st: &std::process::ExitStatus) -> String {
    use std::os::unix::process::ExitStatusExt;
    if let Some(c) = st.code() {
        format!("exit status {}", c)
    } else if let Some(s) = st.signal() {
        format!("killed by signal {}", s)
    } else {
        "unknown status".into()
    }
}

pub fn cpu_ms_of(pid: u32) -> u64 {
    let text = match std::fs::read_to_string(format!("/proc/{}/stat", pid)) {
        Ok(t) => t,
        Err(_) => return 0,
    };
    // fields after the parenthesised command name
    let rest = match text.rfind(')') {
        Some(i) => &text[i + 1..],
        None => return 0,
    };
    let f: Vec<&str> = rest.split_whitespace().collect();
    // rest[0] is field 3 (state); utime = field 14, stime = field 15
    let utime = f.get(11).and_then(|x| x.parse::<u64>().ok()).unwrap_or(0);
    let stime = f.get(12).and_then(|x| x.parse::<u64>().ok()).unwrap_or(0);
    (utime + stime) * 10 // USER_HZ is 100 on Linux
}

pub struct StreamResult {
    pub stdout: Vec<String>,
    /// "exit status N" / "killed by signal N" / "killed by the watchdog"
    pub status: String,
    pub exit_code: Option<i32>,
    pub watchdog_fired: bool,
    /// zero-length reads of fd 0 seen by strace (None when strace was not used / unusable)
    pub eof_reads: Option<u64>,
    /// the monitor killed the process because it kept reading an ended input
    pub spun: bool,
    pub cpu_ms: u64,
}

pub fn strace_available() -> bool {
    Command::new("strace").arg("-V").stdout(Stdio::null()).stderr(Stdio::null()).status().map(|s| s.success()).unwrap_or(false)
}

/// Feed `input` to a fresh process, close its stdin, collect everything.
/// With `trace`, the process runs under `strace -e trace=read,exit_group` writing to `trace_file`;
/// the monitor watches the trace file: once it shows `spin_threshold` zero-length reads of fd 0
/// the process is killed (it is spinning on an ended input) — an event count, not a timeout.
pub fn run_stream(bin: &Path, input: &[u8], trace_file: Option<&PathBuf>, watchdog: Duration, spin_threshold: u64) -> Result<StreamResult, String> {
    let mut cmd = if let Some(tf) = trace_file {
        let _ = std::fs::remove_file(tf);
        let mut c = Command::new("strace");
        c.arg("-qq").arg("-e").arg("trace=read,exit_group").arg("-o").arg(tf).arg(bin);
        c
    } else {
        Command::new(bin)
    };
    let mut child = cmd.stdin(Stdio::piped()).stdout(Stdio::piped()).stderr(Stdio::null()).spawn().map_err(|e| e.to_string())?;
    let mut stdout = child.stdout.take().ok_or("no stdout")?;
    let reader = std::thread::spawn(move || {
        let mut s = Vec::new();
        let _ = stdout.read_to_end(&mut s);
        s
    });
    {
        let mut stdin = child.stdin.take().ok_or("no stdin")?;
        // a process that has already exited (quit in the middle of the stream) closes the pipe
        let _ = stdin.write_all(input);
        let _ = stdin.flush();
    } // stdin dropped here: end of input
    let start = Instant::now();
    let mut watchdog_fired = false;
    let mut spun = false;
    let pid = child.id();
    let mut cpu = 0;
    let status = loop {
        match child.try_wait() {
            Ok(Some(st)) => break Some(st),
            Ok(None) => {}
            Err(e) => return Err(e.to_string()),
        }
        let c = total_cpu_ms_tree(pid);
        if c > cpu {
            cpu = c;
        }
        if let Some(tf) = trace_file {
            if start.elapsed() > Duration::from_millis(200) && count_eof_reads(tf) >= spin_threshold {
                spun = true;
                kill_tree(pid);
                let _ = child.kill();
                break child.wait().ok();
            }
        }
        if start.elapsed() > watchdog {
            watchdog_fired = true;
            kill_tree(pid);
            let _ = child.kill();
            break child.wait().ok();
        }
        std::thread::sleep(Duration::from_millis(5));
    };
    let out = reader.join().unwrap_or_default();
    let stdout: Vec<String> = String::from_utf8_lossy(&out).lines().map(|l| l.to_string()).collect();
    let eof_reads = trace_file.map(|tf| count_eof_reads(tf));
    let (status_text, code) = match (&status, watchdog_fired, spun) {
        (_, _, true) => ("killed by the monitor while spinning on an ended input".to_string(), None),
        (_, true, _) => ("killed by the watchdog".to_string(), None),
        (Some(st), _, _) => {
            // under strace the tracer exits with the tracee's status (or kills itself with the
            // tracee's signal), so the status seen here is the engine's own
            (describe_status(st), st.code())
        }
        (None, _, _) => ("unknown".to_string(), None),
    };
    Ok(StreamResult { stdout, status: status_text, exit_code: code, watchdog_fired, eof_reads, spun, cpu_ms: cpu })
}

pub fn count_eof_reads(trace: &PathBuf) -> u64 {
    let text = match std::fs::read(trace) {
        Ok(t) => t,
        Err(_) => return 0,
    };
    let text = String::from_utf8_lossy(&text);
    text.lines().filter(|l| l.starts_with("read(0, \"\",") && l.trim_end().ends_with("= 0")).count() as u64
}

pub fn trace_shows_exit_group(trace: &PathBuf) -> Option<i64> {
    let text = std::fs::read(trace).ok()?;
    let text = String::from_utf8_lossy(&text);
    for l in text.lines() {
        if let Some(rest) = l.strip_prefix("exit_group(") {
            return rest.split(')').next().and_then(|x| x.trim().parse::<i64>().ok());
        }
    }
    None
}

fn children_of(pid: u32) -> Vec<u32> {
    let mut v = vec![];
    if let Ok(rd) = std::fs::read_dir(format!("/proc/{}/task", pid)) {
        for t in rd.flatten() {
            if let Ok(s) = std::fs::read_to_string(t.path().join("children")) {
                v.extend(s.split_whitespace().filter_map(|x| x.parse::<u32>().ok()));
            }
        }
    }
    v
}

fn total_cpu_ms_tree(pid: u32) -> u64 {
    let mut t = cpu_ms_of(pid);
    for c in children_of(pid) {
        t += cpu_ms_of(c);
    }
    t
}

fn kill_tree(pid: u32) {
    for c in children_of(pid) {
        let _ = Command::new("kill").arg("-9").arg(c.to_string()).status();
    }
}


/// Run one input stream through the release binary under valgrind memcheck (supplementary observer
/// of the parts of the engine only the real process runs: the stdin read loop, process exit).
/// Returns (stdout lines, exit code, memcheck log); Err when valgrind cannot be started.
pub fn run_memcheck(bin: &Path, input: &[u8], log: &PathBuf, watchdog: Duration) -> Result<(Vec<String>, Option<i32>, String), String> {
    let _ = std::fs::remove_file(log);
    let mut child = Command::new("valgrind")
        .arg("-q")
        .arg("--error-exitcode=99")
        .arg("--leak-check=no")
        .arg(format!("--log-file={}", log.display()))
        .arg(bin)
        .stdin(Stdio::piped())
        .stdout(Stdio::piped())
        .stderr(Stdio::null())
        .spawn()
        .map_err(|e| e.to_string())?;
    let mut stdout = child.stdout.take().ok_or("no stdout")?;
    let reader = std::thread::spawn(move || {
        let mut s = Vec::new();
        let _ = stdout.read_to_end(&mut s);
        s
    });
    {
        let mut stdin = child.stdin.take().ok_or("no stdin")?;
        let _ = stdin.write_all(input);
        let _ = stdin.flush();
    }
    let start = Instant::now();
    let pid = child.id();
    let status = loop {
        match child.try_wait() {
            Ok(Some(st)) => break Some(st),
            Ok(None) => {}
            Err(e) => return Err(e.to_string()),
        }
        if start.elapsed() > watchdog {
            kill_tree(pid);
            let _ = child.kill();
            let _ = child.wait();
            return Err("memcheck run exceeded its watchdog".into());
        }
        std::thread::sleep(Duration::from_millis(20));
    };
    let out = reader.join().unwrap_or_default();
    let lines: Vec<String> = String::from_utf8_lossy(&out).lines().map(|l| l.to_string()).collect();
    let text = std::fs::read_to_string(log).unwrap_or_default();
    Ok((lines, status.and_then(|s| s.code()), text))
}
