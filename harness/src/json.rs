//! Minimal JSON value, writer and parser (no external crates are available offline).
use std::collections::BTreeMap;
use std::fmt::Write;

#[derive(Clone, Debug, PartialEq)]
pub enum J {
    Null,
    Bool(bool),
    Int(i64),
    Num(f64),
    Str(String),
    Arr(Vec<J>),
    Obj(Vec<(String, J)>),
}

impl J {
    pub fn s(x: impl Into<String>) -> J {
        J::Str(x.into())
    }
    pub fn i(x: impl TryInto<i64>) -> J {
        J::Int(x.try_into().unwrap_or(i64::MAX))
    }
    pub fn obj(pairs: Vec<(&str, J)>) -> J {
        J::Obj(pairs.into_iter().map(|(k, v)| (k.to_string(), v)).collect())
    }
    pub fn arr_s<I: IntoIterator<Item = S>, S: Into<String>>(it: I) -> J {
        J::Arr(it.into_iter().map(|x| J::Str(x.into())).collect())
    }
    pub fn from_counts(m: &BTreeMap<String, u64>) -> J {
        J::Obj(m.iter().map(|(k, v)| (k.clone(), J::Int(*v as i64))).collect())
    }
    pub fn get(&self, key: &str) -> Option<&J> {
        match self {
            J::Obj(v) => v.iter().find(|(k, _)| k == key).map(|(_, v)| v),
            _ => None,
        }
    }
    pub fn as_str(&self) -> Option<&str> {
        match self {
            J::Str(s) => Some(s),
            _ => None,
        }
    }
    pub fn as_i64(&self) -> Option<i64> {
        match self {
            J::Int(i) => Some(*i),
            J::Num(f) => Some(*f as i64),
            _ => None,
        }
    }
    pub fn as_arr(&self) -> Option<&Vec<J>> {
        match self {
            J::Arr(a) => Some(a),
            _ => None,
        }
    }
    pub fn str_of(&self, key: &str) -> String {
        self.get(key).and_then(|v| v.as_str()).unwrap_or("").to_string()
    }
    pub fn int_of(&self, key: &str) -> i64 {
        self.get(key).and_then(|v| v.as_i64()).unwrap_or(0)
    }

    pub fn to_string(&self) -> String {
        let mut s = String::new();
        self.write(&mut s, 0, false);
        s
    }
    pub fn pretty(&self) -> String {
        let mut s = String::new();
        self.write(&mut s, 0, true);
        s.push('\n');
        s
    }
    fn write(&self, out: &mut String, ind: usize, pretty: bool) {
        match self {
            J::Null => out.push_str("null"),
            J::Bool(b) => out.push_str(if *b { "true" } else { "false" }),
            J::Int(i) => {
                let _ = write!(out, "{}", i);
            }
            J::Num(f) => {
                if f.is_finite() {
                    let _ = write!(out, "{:.3}", f);
                } else {
                    out.push_str("null");
                }
            }
            J::Str(s) => write_str(out, s),
            J::Arr(a) => {
                // arrays of scalars stay on one line
                let scalar = a.iter().all(|x| !matches!(x, J::Arr(_) | J::Obj(_)));
                out.push('[');
                for (i, x) in a.iter().enumerate() {
                    if i > 0 {
                        out.push(',');
                    }
                    if pretty && !scalar {
                        out.push('\n');
                        out.push_str(&" ".repeat(ind + 1));
                    } else if i > 0 {
                        out.push(' ');
                    }
                    x.write(out, ind + 1, pretty);
                }
                if pretty && !scalar && !a.is_empty() {
                    out.push('\n');
                    out.push_str(&" ".repeat(ind));
                }
                out.push(']');
            }
            J::Obj(o) => {
                out.push('{');
                for (i, (k, v)) in o.iter().enumerate() {
                    if i > 0 {
                        out.push(',');
                    }
                    if pretty {
                        out.push('\n');
                        out.push_str(&" ".repeat(ind + 1));
                    } else if i > 0 {
                        out.push(' ');
                    }
                    write_str(out, k);
                    out.push_str(": ");
                    v.write(out, ind + 1, pretty);
                }
                if pretty && !o.is_empty() {
                    out.push('\n');
                    out.push_str(&" ".repeat(ind));
                }
                out.push('}');
            }
        }
    }
}

fn write_str(out: &mut String, s: &str) {
    out.push('"');
    for c in s.chars() {
        match c {
            '"' => out.push_str("\\\""),
            '\\' => out.push_str("\\\\"),
            '\n' => out.push_str("\\n"),
            '\r' => out.push_str("\\r"),
            '\t' => out.push_str("\\t"),
            c if (c as u32) < 0x20 => {
                let _ = write!(out, "\\u{:04x}", c as u32);
            }
            c => out.push(c),
        }
    }
    out.push('"');
}

pub fn parse(text: &str) -> Result<J, String> {
    let b: Vec<char> = text.chars().collect();
    let mut i = 0;
    let v = parse_value(&b, &mut i)?;
    skip_ws(&b, &mut i);
    if i != b.len() {
        return Err(format!("json: trailing data at {}", i));
    }
    Ok(v)
}

fn skip_ws(b: &[char], i: &mut usize) {
    while *i < b.len() && b[*i].is_whitespace() {
        *i += 1;
    }
}

fn parse_value(b: &[char], i: &mut usize) -> Result<J, String> {
    skip_ws(b, i);
    if *i >= b.len() {
        return Err("json: eof".into());
    }
    match b[*i] {
        '{' => {
            *i += 1;
            let mut v = Vec::new();
            loop {
                skip_ws(b, i);
                if *i < b.len() && b[*i] == '}' {
                    *i += 1;
                    break;
                }
                let k = match parse_value(b, i)? {
                    J::Str(s) => s,
                    _ => return Err("json: key".into()),
                };
                skip_ws(b, i);
                if *i >= b.len() || b[*i] != ':' {
                    return Err("json: colon".into());
                }
                *i += 1;
                let val = parse_value(b, i)?;
                v.push((k, val));
                skip_ws(b, i);
                if *i < b.len() && b[*i] == ',' {
                    *i += 1;
                }
            }
            Ok(J::Obj(v))
        }
        '[' => {
            *i += 1;
            let mut v = Vec::new();
            loop {
                skip_ws(b, i);
                if *i < b.len() && b[*i] == ']' {
                    *i += 1;
                    break;
                }
                v.push(parse_value(b, i)?);
                skip_ws(b, i);
                if *i < b.len() && b[*i] == ',' {
                    *i += 1;
                }
            }
            Ok(J::Arr(v))
        }
        '"' => {
            *i += 1;
            let mut s = String::new();
            while *i < b.len() && b[*i] != '"' {
                if b[*i] == '\\' && *i + 1 < b.len() {
                    *i += 1;
                    match b[*i] {
                        'n' => s.push('\n'),
                        't' => s.push('\t'),
                        'r' => s.push('\r'),
                        'u' => {
                            let hex: String = b[*i + 1..(*i + 5).min(b.len())].iter().collect();
                            if let Some(c) = u32::from_str_radix(&hex, 16).ok().and_then(char::from_u32) {
                                s.push(c);
                            }
                            *i += 4;
                        }
                        c => s.push(c),
                    }
                } else {
                    s.push(b[*i]);
                }
                *i += 1;
            }
            *i += 1;
            Ok(J::Str(s))
        }
        't' => {
            *i += 4;
            Ok(J::Bool(true))
        }
        'f' => {
            *i += 5;
            Ok(J::Bool(false))
        }
        'n' => {
            *i += 4;
            Ok(J::Null)
        }
        _ => {
            let st = *i;
            while *i < b.len() && (b[*i].is_ascii_digit() || "+-.eE".contains(b[*i])) {
                *i += 1;
            }
            let t: String = b[st..*i].iter().collect();
            if let Ok(n) = t.parse::<i64>() {
                Ok(J::Int(n))
            } else {
                t.parse::<f64>().map(J::Num).map_err(|_| format!("json: number '{}'", t))
            }
        }
    }
}
