//! C04 — the position command reconstructs the exact game position.
//! C09 — the third occurrence of a position in the game is scored as a draw.
//!
//! Both drive the real protocol handler: in-process through the hook accessors
//! (verif_handle_command / verif_board / verif_searcher) and end-to-end on the hooks-off release
//! binary. The oracle is the reference game played with the reference rules.
use crate::bb;
use crate::board::Board;
use crate::eng::{self, compare_board};
use crate::gen;
use crate::json::J;
use crate::oracle::{self, Mv, MvKind, Pos, PosKey};
use crate::refsearch::{class, Val};
use crate::report::{engine_call, finalize, parallel, Ctx, Spec, Stats};
use crate::rng::{hash64, Rng};
use crate::search::Searcher;
use crate::uci::Flounder;
use std::collections::HashMap;
use std::time::Duration;

const HALF: [u32; 8] = [0, 1, 7, 49, 50, 99, 100, 149];
const FULL: [u32; 10] = [1, 2, 50, 127, 128, 255, 256, 300, 1000, 5899];

/// A game for a position command: start (None = startpos) and moves.
#[derive(Clone)]
pub struct Game {
    pub start: Pos,
    pub startpos: bool,
    pub moves: Vec<Mv>,
    /// positions P0..Pn (P0 = start)
    pub positions: Vec<Pos>,
}

impl Game {
    pub fn command(&self, rng: Option<&mut Rng>) -> String {
        let sep = match rng.map(|r| r.below(24)) {
            Some(0) | Some(1) => "  ",
            Some(2) | Some(3) => "\t",
            _ => " ",
        };
        let mut s = String::from("position");
        s.push_str(sep);
        if self.startpos {
            s.push_str("startpos");
        } else {
            s.push_str("fen ");
            s.push_str(&self.start.to_fen());
        }
        if !self.moves.is_empty() {
            s.push_str(sep);
            s.push_str("moves");
            for m in &self.moves {
                s.push(' ');
                s.push_str(&m.uci());
            }
        }
        s
    }
    pub fn current(&self) -> &Pos {
        self.positions.last().unwrap()
    }
    pub fn json(&self) -> J {
        J::obj(vec![("command", J::s(self.command(None))), ("moves", J::i(self.moves.len() as i64))])
    }
}

fn game_from(start: Pos, startpos: bool, rng: &mut Rng, plies: usize) -> Game {
    let (positions, moves) = gen::playout(&start, rng, plies);
    Game { start, startpos, moves, positions }
}

/// A random game command: startpos or FEN form; FEN starts are exported from other games at random
/// plies with hostile (but reachable) move counters.
fn random_game(rng: &mut Rng) -> Game {
    if rng.chance(1, 40) {
        // a very long game (hundreds of moves, up to 1500 plies): GUIs send the whole game every move
        let start = Pos::start();
        let n = rng.range(400, 1500) as usize;
        let (positions, moves) = gen::long_game(&start, rng, n);
        return Game { start, startpos: true, moves, positions };
    }
    let plies = match rng.below(10) {
        0 => 0,
        1..=3 => rng.range(1, 12) as usize,
        4..=7 => rng.range(12, 90) as usize,
        _ => rng.range(90, 300) as usize,
    };
    if rng.chance(2, 5) {
        return game_from(Pos::start(), true, rng, plies);
    }
    let mut start = match rng.below(6) {
        0 => gen::corpus_pos(rng.below(gen::CORPUS.len() as u64) as usize),
        1 => gen::g_promo(rng),
        2 => gen::g_castle(rng),
        3 => gen::g_ep(rng),
        _ => gen::g_game_pos(rng),
    };
    start.half = *rng.pick(&HALF);
    start.full = *rng.pick(&FULL);
    if rng.chance(1, 4) {
        start.full = rng.range(1, 6000) as u32;
        start.half = rng.range(0, 150) as u32;
    }
    game_from(start, false, rng, plies)
}

fn note_move_features(g: &Game, st: &mut Stats) {
    for (i, m) in g.moves.iter().enumerate() {
        match m.kind {
            MvKind::CastleK => st.bump("moves_castle_kingside"),
            MvKind::CastleQ => st.bump("moves_castle_queenside"),
            MvKind::EnPassant => st.bump("moves_en_passant"),
            _ => {}
        }
        if m.promo != 0 {
            st.bump(match m.promo {
                oracle::N => "moves_promotion_n",
                oracle::B => "moves_promotion_b",
                oracle::R => "moves_promotion_r",
                _ => "moves_promotion_q",
            });
            if g.positions[i].sq[m.to as usize] != 0 {
                st.bump("moves_promotion_with_capture");
            }
        }
    }
    if !g.startpos {
        st.bump("fen_form");
        if g.start.full > 255 {
            st.bump("fen_fullmove_above_255");
        }
        if g.start.half >= 100 {
            st.bump("fen_halfmove_100_or_more");
        }
        if g.start.ep != oracle::NO_EP {
            st.bump("fen_with_ep_square");
        }
    } else {
        st.bump("startpos_form");
    }
    st.maxi("max_moves_in_a_command", g.moves.len() as u64);
}

// ------------------------------------------------------------------------------------------ C04

fn c04_inprocess(ctx: &Ctx) -> Stats {
    let n = ctx.budget(20_000, 1_000_000);
    parallel(ctx.workers, |w| {
        let mut st = Stats::new();
        let mut rng = Rng::new(ctx.seed, 4000 + w as u64);
        let mut engine = Flounder::new();
        let mut since_new = 0;
        let mut prev: Option<String> = None;
        let mut prev_game: Option<Game> = None;
        for k in 0..(n / ctx.workers as u64 + 1) {
            if k >= 50 && ctx.past(0.6) {
                break;
            }
            // several position commands on one engine; a new engine now and then
            if since_new > 0 && rng.chance(1, 6) {
                engine = Flounder::new();
                since_new = 0;
                prev = None;
                prev_game = None;
            }
            // what a GUI really sends: the same game line again, grown by a few plies or cut short (a
            // take-back), with other commands in between — a search, ucinewgame, isready, junk
            let mut between: Option<&'static str> = None;
            let g = match prev_game.as_ref() {
                Some(pg) if since_new > 0 && rng.chance(2, 5) => {
                    let pg: &Game = pg;
                    if rng.chance(1, 2) {
                        between = Some(*rng.pick(&["ucinewgame", "ucinewgame", "isready", "go depth 1", "go depth 2", "uci", "stop", "xq_unknown_word"]));
                    }
                    let mut g2 = pg.clone();
                    match rng.below(4) {
                        0 => {
                            st.bump("commands_repeating_the_previous_game_line");
                        }
                        1 if !g2.moves.is_empty() => {
                            let keep = rng.below(g2.moves.len() as u64) as usize;
                            g2.moves.truncate(keep);
                            g2.positions.truncate(keep + 1);
                            st.bump("commands_cutting_the_previous_game_line_short");
                        }
                        _ => {
                            let add = [1usize, 1, 2, 2, 3, 9][rng.below(6) as usize];
                            let cur = g2.current().clone();
                            let (ps, ms) = gen::playout(&cur, &mut rng, add);
                            g2.moves.extend(ms);
                            g2.positions.extend(ps.into_iter().skip(1));
                            st.bump("commands_extending_the_previous_game_line");
                        }
                    }
                    g2
                }
                _ => random_game(&mut rng),
            };
            if let Some(b) = between {
                st.bump(&format!("between_two_position_commands_{}", b.replace(' ', "_")));
                let r = {
                    let e = &mut engine;
                    engine_call(|| e.verif_handle_command(b))
                };
                if let Err(msg) = r {
                    st.violation(
                        format!("C04:panic-between:{}:{}", b, prev.clone().unwrap_or_default()),
                        format!("'{}' after '{}' panicked: {}", b, shorten(&prev.clone().unwrap_or_default()), msg),
                        J::obj(vec![("kind", J::s("inprocess")), ("command", J::s(b)), ("previous_command", J::s(prev.clone().unwrap_or_default()))]),
                    );
                    engine = Flounder::new();
                    since_new = 0;
                    prev = None;
                    prev_game = None;
                    continue;
                }
            }
            let cmd = g.command(Some(&mut rng));
            note_move_features(&g, &mut st);
            if since_new > 0 {
                st.bump("commands_after_an_earlier_position_command");
            }
            st.case(hash64(&cmd), !g.moves.is_empty() || !g.startpos);
            st.sample_tagged(if g.startpos { "startpos" } else { "fen" }, || g.json());
            let case = || J::obj(vec![("kind", J::s("inprocess")), ("command", J::s(cmd.clone())), ("previous_command", J::s(prev.clone().unwrap_or_default())), ("between", J::s(between.unwrap_or("")))]);
            let r = {
                let e = &mut engine;
                engine_call(|| e.verif_handle_command(&cmd))
            };
            match r {
                Err(msg) => {
                    st.violation(
                        format!("C04:panic:{}", cmd),
                        format!("'{}' panicked: {}", shorten(&cmd), msg),
                        case(),
                    );
                    engine = Flounder::new();
                    since_new = 0;
                    prev = None;
                    prev_game = None;
                    continue;
                }
                Ok(()) => {
                    if let Err(why) = compare_board(engine.verif_board(), g.current()) {
                        st.violation(
                            format!("C04:board:{}", cmd),
                            format!("after '{}' the engine's position is wrong: {}; the rules give {}", shorten(&cmd), why, g.current().to_fen()),
                            case(),
                        );
                    }
                }
            }
            since_new += 1;
            prev = Some(cmd);
            prev_game = Some(g);
        }
        st
    })
}

fn shorten(s: &str) -> String {
    if s.len() > 220 {
        format!("{} ... {}", &s[..150], &s[s.len() - 50..])
    } else {
        s.to_string()
    }
}

/// Black-box: the real binary must survive the command and then answer a legal move.
fn c04_blackbox(ctx: &Ctx) -> Stats {
    let n = ctx.budget(160, 3000);
    let workers = ctx.workers.min(8);
    parallel(workers, |w| {
        let mut st = Stats::new();
        let mut rng = Rng::new(ctx.seed, 4500 + w as u64);
        let mut eng: Option<bb::Engine> = None;
        let mut script: Vec<String> = vec![];
        for k in 0..(n / workers as u64 + 1) {
            if k >= 3 && ctx.out_of_time() {
                break;
            }
            if eng.is_none() || rng.chance(1, 5) {
                if let Some(e) = eng.take() {
                    e.quit();
                }
                eng = match bb::Engine::spawn(&ctx.engine_bin) {
                    Ok(e) => Some(e),
                    Err(e) => {
                        st.inconclusive.push(format!("cannot start the engine binary: {}", e));
                        return st;
                    }
                };
                script.clear();
            }
            let g = random_game(&mut rng);
            let cmd = g.command(None);
            let legal: Vec<String> = g.current().legal_moves().iter().map(|m| m.uci()).collect();
            script.push(cmd.clone());
            script.push("go depth 1".into());
            let case = J::obj(vec![("kind", J::s("blackbox")), ("commands", J::arr_s(script.clone()))]);
            st.case(hash64(&(cmd.clone(), 1u8)), true);
            st.bump("blackbox_commands");
            note_move_features(&g, &mut st);
            let e = eng.as_mut().unwrap();
            let r = e.command(&cmd, Duration::from_secs(20)).and_then(|_| e.command("go depth 1", Duration::from_secs(60)));
            match r {
                Ok(lines) => {
                    let bm: Vec<&String> = lines.iter().filter(|l| l.starts_with("bestmove")).collect();
                    let ans = bm.first().and_then(|l| l.split_whitespace().nth(1)).unwrap_or("").to_string();
                    let ok = if legal.is_empty() { ans == "0000" } else { legal.contains(&ans) };
                    if bm.len() != 1 || !ok {
                        st.violation(
                            format!("C04:blackbox-answer:{}", cmd),
                            format!("after '{}' the engine answers '{}' to 'go depth 1', which is not a legal move of the position the command describes ({})", shorten(&cmd), ans, g.current().to_fen()),
                            case,
                        );
                    }
                }
                Err(bb::Fail::Died(status)) => {
                    st.violation(format!("C04:blackbox-died:{}", cmd), format!("the engine process ended ({}) on '{}'", status, shorten(&cmd)), case);
                    eng = None;
                }
                Err(bb::Fail::Timeout) => {
                    st.inconclusive.push(format!("no answer within the watchdog after '{}'", shorten(&cmd)));
                    eng = None;
                }
            }
        }
        if let Some(e) = eng.take() {
            e.quit();
        }
        st
    })
}

pub fn run_c04(ctx: &Ctx) -> i32 {
    let spec = Spec {
        level: "exploration",
        rule: "a case is one position command built from a reference game: 'startpos' or a six-field FEN exported from another game (halfmove clock in {0..149}, fullmove number in {1..5899}), followed by 0..300 legal moves in UCI notation (castling as king moves, en passant, all four promotion letters with and without capture); commands are issued in sequences on one engine (later ones must fully replace earlier ones; two fifths of them give the previous command's game line again — extended by 1..9 plies, unchanged, or cut short — half of those with another command in between: ucinewgame, a depth-limited go, isready, uci, unknown words), with occasional repeated blanks/tabs between tokens. In-process (hook) the engine's board is read back and compared field by field with the reference position; black-box the real binary must survive the command and answer 'go depth 1' with a legal move of that position. Distinct by command text; non-trivial when the command has moves or a FEN",
        assumptions: vec!["the reference rules implementation is correct (perft self-test at every run)".into(), "move counters are not compared (the property is about the position); they only have to be accepted".into()],
        required: if ctx.replay.is_some() {
            vec![]
        } else {
            vec!["startpos_form", "fen_form", "fen_fullmove_above_255", "fen_halfmove_100_or_more", "fen_with_ep_square", "moves_castle_kingside", "moves_castle_queenside", "moves_en_passant", "moves_promotion_n", "moves_promotion_b", "moves_promotion_r", "moves_promotion_q", "moves_promotion_with_capture", "commands_after_an_earlier_position_command", "commands_extending_the_previous_game_line", "commands_cutting_the_previous_game_line_short", "between_two_position_commands_ucinewgame", "between_two_position_commands_go_depth_1", "blackbox_commands"]
        },
        exhaustive: false,
        extra: vec![],
    };
    if let Some(r) = ctx.replay.as_ref() {
        let mut st = Stats::new();
        if let Some(c) = r.get("case") {
            replay_c04(ctx, c, &mut st);
        }
        return finalize(ctx, spec, st);
    }
    let mut total = c04_inprocess(ctx);
    total.merge(c04_blackbox(ctx));
    finalize(ctx, spec, total)
}

/// Reference position described by a position command (None when it is not well-formed).
pub fn reference_of_command(cmd: &str) -> Option<(Pos, Vec<Pos>)> {
    let t: Vec<&str> = cmd.split_whitespace().collect();
    if t.first() != Some(&"position") {
        return None;
    }
    let mut p = if t.get(1) == Some(&"startpos") {
        Pos::start()
    } else if t.get(1) == Some(&"fen") && t.len() >= 8 {
        Pos::from_fen(&t[2..8].join(" ")).ok()?
    } else {
        return None;
    };
    let mut all = vec![p.clone()];
    if let Some(i) = t.iter().position(|x| *x == "moves") {
        for u in &t[i + 1..] {
            let m = p.find_uci(u)?;
            p = p.make(&m);
            all.push(p.clone());
        }
    }
    Some((p, all))
}

fn replay_c04(ctx: &Ctx, c: &J, st: &mut Stats) {
    if c.str_of("kind") == "blackbox" {
        let cmds: Vec<String> = c.get("commands").and_then(|a| a.as_arr()).map(|a| a.iter().filter_map(|x| x.as_str().map(|s| s.to_string())).collect()).unwrap_or_default();
        let mut e = match bb::Engine::spawn(&ctx.engine_bin) {
            Ok(e) => e,
            Err(m) => {
                st.inconclusive.push(m);
                return;
            }
        };
        let mut last_ref: Option<Pos> = None;
        for cmd in cmds.iter() {
            st.case(hash64(cmd), true);
            if cmd.starts_with("position") {
                last_ref = reference_of_command(cmd).map(|x| x.0);
            }
            match e.command(cmd, Duration::from_secs(60)) {
                Ok(lines) => {
                    if cmd.starts_with("go") {
                        if let Some(p) = last_ref.as_ref() {
                            let legal: Vec<String> = p.legal_moves().iter().map(|m| m.uci()).collect();
                            let ans = lines.iter().find(|l| l.starts_with("bestmove")).and_then(|l| l.split_whitespace().nth(1)).unwrap_or("").to_string();
                            let ok = if legal.is_empty() { ans == "0000" } else { legal.contains(&ans) };
                            if !ok {
                                st.violation("C04:replay:answer", format!("answer '{}' is not legal in {}", ans, p.to_fen()), c.clone());
                            }
                        }
                    }
                }
                Err(bb::Fail::Died(s)) => {
                    st.violation("C04:replay:died", format!("engine ended ({}) on '{}'", s, shorten(cmd)), c.clone());
                    return;
                }
                Err(bb::Fail::Timeout) => {
                    st.inconclusive.push("watchdog".into());
                    return;
                }
            }
        }
        return;
    }
    let mut engine = Flounder::new();
    for key in ["previous_command", "between", "command"] {
        let cmd = c.str_of(key);
        if cmd.is_empty() {
            continue;
        }
        if key == "between" {
            let e = &mut engine;
            if let Err(msg) = engine_call(|| e.verif_handle_command(&cmd)) {
                st.violation("C04:replay:panic", format!("'{}' panicked: {}", cmd, msg), c.clone());
                return;
            }
            continue;
        }
        st.case(hash64(&cmd), true);
        let want = match reference_of_command(&cmd) {
            Some(x) => x.0,
            None => {
                st.inconclusive.push("replay: the command is not a well-formed legal game".into());
                return;
            }
        };
        let r = {
            let e = &mut engine;
            engine_call(|| e.verif_handle_command(&cmd))
        };
        match r {
            Err(msg) => {
                st.violation("C04:replay:panic", format!("'{}' panicked: {}", shorten(&cmd), msg), c.clone());
                return;
            }
            Ok(()) => {
                if let Err(why) = compare_board(engine.verif_board(), &want) {
                    st.violation("C04:replay:board", format!("after '{}': {}", shorten(&cmd), why), c.clone());
                }
            }
        }
    }
}

// ------------------------------------------------------------------------------------------ C09

/// A game that shuffles pieces out and back so that positions occur one to four times, sometimes
/// the initial position of the history.
pub fn repeat_game(rng: &mut Rng) -> Game {
    repeat_game_from(rng, None)
}

/// `force_startpos`: Some(true) = always from the start position
pub fn repeat_game_from(rng: &mut Rng, force_startpos: Option<bool>) -> Game {
    let startpos = force_startpos.unwrap_or_else(|| rng.chance(1, 3));
    let mut start = if startpos {
        Pos::start()
    } else {
        match rng.below(8) {
            // a double step has just been played and can be captured en passant (also only from the a- or
            // h-file): once the capture is declined the same placement recurs WITHOUT the right — a different
            // position that a hash careless about the en-passant square counts as an occurrence
            6 | 7 => {
                let mut p = gen::g_ep(rng);
                for _ in 0..40 {
                    if p.ep_capture_legal() && p.legal_moves().len() >= 3 {
                        break;
                    }
                    p = gen::g_ep(rng);
                }
                p
            }
            0 => gen::g_small(rng, 8),
            1 => gen::corpus_pos(rng.below(gen::CORPUS.len() as u64) as usize),
            // kings and rooks at home with castling rights: shuffling them out and back makes the
            // same placement recur with fewer rights (a different position)
            2 => gen::g_castle(rng),
            3 => Pos::from_fen(*rng.pick(&["r3k2r/8/8/8/8/8/8/R3K2R w KQkq - 0 1", "r3k2r/pppppppp/8/8/8/8/PPPPPPPP/R3K2R w KQkq - 0 1", "r3k2r/8/8/8/8/8/8/R3K2R b KQkq - 0 1", "rn2k2r/8/8/8/8/8/8/R3K1NR w KQkq - 0 1"])).unwrap(),
            _ => gen::g_game_pos(rng),
        }
    };
    if !startpos {
        start.half = rng.range(0, 40) as u32;
        start.full = rng.range(1, 300) as u32;
    }
    let plies = rng.range(2, 40) as usize;
    let mut positions = vec![start.clone()];
    let mut moves = vec![];
    let mut cur = start.clone();
    let mut seen: HashMap<PosKey, u32> = HashMap::new();
    seen.insert(cur.key(), 1);
    let return_bias = rng.range(40, 90) as u64;
    for _ in 0..plies {
        let legal = cur.legal_moves();
        if legal.is_empty() {
            break;
        }
        // moves that bring about a position already seen
        let back: Vec<&Mv> = legal.iter().filter(|m| seen.contains_key(&cur.make(m).key())).collect();
        let quiet: Vec<&Mv> = legal.iter().filter(|m| !cur.is_capture(m) && oracle::kind(cur.sq[m.from as usize]) != oracle::P && m.kind == MvKind::Normal).collect();
        // the reverse of this side's previous move (piece goes back where it came from)
        let undo: Option<Mv> = if moves.len() >= 2 {
            let prev: &Mv = &moves[moves.len() - 2];
            legal.iter().find(|m| m.from == prev.to && m.to == prev.from && m.kind == MvKind::Normal && m.promo == 0).cloned()
        } else {
            None
        };
        let m = if !back.is_empty() && rng.chance(return_bias, 100) {
            **rng.pick(&back)
        } else if undo.is_some() && rng.chance(return_bias, 100) {
            undo.unwrap()
        } else if !quiet.is_empty() && rng.chance(85, 100) {
            **rng.pick(&quiet)
        } else {
            *rng.pick(&legal)
        };
        cur = cur.make(&m);
        *seen.entry(cur.key()).or_insert(0) += 1;
        moves.push(m);
        positions.push(cur.clone());
    }
    Game { start, startpos, moves, positions }
}

/// A history in which a position occurs twice EARLY and the move that brings it about a third time
/// comes more than 100 plies later: two out-and-back cycles, then a long reversible excursion in
/// which each side walks a piece out and back along its own path, all without captures, pawn moves
/// or castling-right changes (total below the 75-move limit).
pub fn far_repeat_game(rng: &mut Rng) -> Option<Game> {
    for _ in 0..300 {
        let mut start = if rng.chance(1, 2) { gen::g_small(rng, 9) } else { gen::g_game_pos(rng) };
        start.castle = 0;
        start.ep = oracle::NO_EP;
        start.half = 0;
        start.full = rng.range(1, 80) as u32;
        if start.validity().is_err() || start.in_check() {
            continue;
        }
        let reversible = |p: &Pos, m: &Mv| m.kind == MvKind::Normal && m.promo == 0 && !p.is_capture(m) && oracle::kind(p.sq[m.from as usize]) != oracle::P;
        let mut positions = vec![start.clone()];
        let mut moves: Vec<Mv> = vec![];
        let mut cur = start.clone();
        let mut ok = true;
        let play = |cur: &mut Pos, m: Mv, positions: &mut Vec<Pos>, moves: &mut Vec<Mv>| {
            *cur = cur.make(&m);
            moves.push(m);
            positions.push(cur.clone());
        };
        // two cycles a, b, a^-1, b^-1
        let la = cur.legal_moves();
        let cand_a: Vec<Mv> = la.iter().filter(|m| reversible(&cur, m)).cloned().collect();
        if cand_a.is_empty() {
            continue;
        }
        let a = *rng.pick(&cand_a);
        let after_a = cur.make(&a);
        let cand_b: Vec<Mv> = after_a.legal_moves().iter().filter(|m| reversible(&after_a, m)).cloned().collect();
        if cand_b.is_empty() {
            continue;
        }
        let b = *rng.pick(&cand_b);
        let inv = |m: &Mv| Mv { from: m.to, to: m.from, promo: 0, kind: MvKind::Normal };
        for _ in 0..2 {
            for m in [a, b, inv(&a), inv(&b)] {
                if cur.legal_moves().contains(&m) && !cur.is_capture(&m) {
                    play(&mut cur, m, &mut positions, &mut moves);
                } else {
                    ok = false;
                    break;
                }
            }
            if !ok {
                break;
            }
        }
        if !ok || cur.key() != start.key() {
            if std::env::var("FAR_DEBUG").is_ok() { eprintln!("cycle failed ok={}", ok); }
            continue;
        }
        // excursion: each side walks ONE piece out for k short steps (adjacent squares or knight
        // jumps, so no path can be blocked), then each side walks its piece back the way it came
        let k = rng.range(26, 34) as usize;
        let mut wout: Vec<Mv> = vec![];
        let mut bout: Vec<Mv> = vec![];
        let short = |m: &Mv| {
            let df = (oracle::file_of(m.from) - oracle::file_of(m.to)).abs();
            let dr = (oracle::rank_of(m.from) - oracle::rank_of(m.to)).abs();
            (df <= 1 && dr <= 1) || (df == 1 && dr == 2) || (df == 2 && dr == 1)
        };
        for i in 0..2 * k {
            let l = cur.legal_moves();
            let own = if i % 2 == 0 { &wout } else { &bout };
            let all: Vec<Mv> = l
                .iter()
                .filter(|m| reversible(&cur, m) && short(m) && !cur.gives_check(m))
                .filter(|m| match own.last() {
                    // the same piece keeps walking
                    Some(prev) => m.from == prev.to,
                    None => oracle::kind(cur.sq[m.from as usize]) == oracle::N || oracle::kind(cur.sq[m.from as usize]) == oracle::K || oracle::kind(cur.sq[m.from as usize]) == oracle::Q,
                })
                .cloned()
                .collect();
            // prefer not to step straight back
            let forward: Vec<Mv> = all.iter().filter(|m| own.last().map(|p| m.to != p.from).unwrap_or(true)).cloned().collect();
            let cand = if forward.is_empty() { all } else { forward };
            if cand.is_empty() {
                ok = false;
                break;
            }
            let m = *rng.pick(&cand);
            if i % 2 == 0 {
                wout.push(m);
            } else {
                bout.push(m);
            }
            play(&mut cur, m, &mut positions, &mut moves);
        }
        if !ok {
            if std::env::var("FAR_DEBUG").is_ok() { eprintln!("excursion out failed after {} {}", wout.len(), bout.len()); }
            continue;
        }
        for i in 0..k {
            for side_moves in [&wout, &bout] {
                let m = inv(&side_moves[k - 1 - i]);
                if cur.legal_moves().contains(&m) && !cur.is_capture(&m) {
                    play(&mut cur, m, &mut positions, &mut moves);
                } else {
                    ok = false;
                    break;
                }
            }
            if !ok {
                break;
            }
        }
        if !ok || cur.key() != start.key() || cur.half >= 148 {
            if std::env::var("FAR_DEBUG").is_ok() { eprintln!("return failed ok={} half={}", ok, cur.half); }
            continue;
        }
        return Some(Game { start, startpos: false, moves, positions });
    }
    None
}

/// occurrences of `s` among the game's positions: (strict identity, FIDE identity)
fn occurrences(g: &Game, s: &Pos) -> (u32, u32) {
    let ks = s.key();
    let kf = s.key_fide();
    let mut a = 0;
    let mut b = 0;
    for p in g.positions.iter() {
        if p.key() == ks {
            a += 1;
        }
        if p.key_fide() == kf {
            b += 1;
        }
    }
    (a, b)
}

/// Check every successor of the game's current position against the engine's repetition answer.
fn c09_check_successors(engine: &mut Flounder, g: &Game, st: &mut Stats, case: &dyn Fn() -> J, context: &str) {
    let cur = g.current();
    for m in cur.legal_moves() {
        let s = cur.make(&m);
        let (strict, fide) = occurrences(g, &s);
        let b = Board::new(&s.to_fen());
        let ans = {
            let sr = engine.verif_searcher();
            engine_call(|| sr.verif_is_repetition_draw(&b))
        };
        let ans = match ans {
            Ok(a) => a,
            Err(msg) => {
                st.violation(format!("C09:panic:{}", g.command(None)), format!("repetition query panicked: {}", msg), case());
                return;
            }
        };
        st.bump("successors_checked");
        {
            // the same placement and side to move on record with other castling rights / ep target:
            // a different position, which a hash that conflates rights would count as an occurrence
            let same_placement = g.positions.iter().filter(|p| p.sq == s.sq && p.stm == s.stm).count() as u32;
            if same_placement > strict {
                st.bump("placement_recurs_with_other_rights_or_ep");
                if g.positions.iter().any(|p| p.sq == s.sq && p.stm == s.stm && p.ep != oracle::NO_EP && p.ep_capture_legal() && s.ep == oracle::NO_EP) {
                    st.bump("placement_recurs_after_a_capturable_en_passant_right_lapsed");
                    let f = oracle::file_of(g.positions.iter().find(|p| p.sq == s.sq && p.stm == s.stm && p.ep != oracle::NO_EP).map(|p| p.ep).unwrap_or(0));
                    if f == 1 || f == 6 {
                        st.bump("placement_recurs_after_a_lapsed_en_passant_right_on_the_b_or_g_file");
                    }
                }
            }
        }
        st.bump(match strict {
            0 => "successor_seen_0_times",
            1 => "successor_seen_1_time",
            2 => "successor_seen_2_times",
            _ => "successor_seen_3_or_more_times",
        });
        if strict >= 2 && s.key() == g.start.key() {
            st.bump("third_occurrence_of_the_initial_position");
        }
        if strict >= 2 {
            if !ans {
                st.violation(
                    format!("C09:missed:{}:{}", g.command(None), m.uci()),
                    format!("{}: after '{}' the move {} brings about a position that has already occurred {} times, but the engine does not treat it as a draw", context, shorten(&g.command(None)), m.uci(), strict),
                    case(),
                );
            }
        } else if fide < 2 {
            if ans {
                st.violation(
                    format!("C09:spurious:{}:{}", g.command(None), m.uci()),
                    format!("{}: after '{}' the move {} leads to a position seen only {} time(s) before, but the engine treats it as a draw by repetition", context, shorten(&g.command(None)), m.uci(), fide),
                    case(),
                );
            }
        } else {
            st.bump("successor_in_between_two_readings_of_same_position");
        }
    }
}

/// A history in which a double step that can be captured en passant (half of the time only from the a- or
/// h-file) is declined, both sides shuffle a piece out and back, and the same placement recurs WITHOUT the
/// en-passant right — once, twice or more, the game ending zero to three plies short of the next return.
/// The position with the right and the one without it are different positions (the capture was possible),
/// so the returns must be counted from the first position WITHOUT the right; a hash that drops the
/// en-passant square (for some files, for some capturers) counts one occurrence too many.
pub fn ep_lapse_game(rng: &mut Rng) -> Option<Game> {
    for _ in 0..80 {
        let p0 = gen::g_ep(rng);
        if !p0.ep_capture_legal() || p0.in_check() {
            continue;
        }
        if rng.chance(1, 2) {
            // only from the rook file: the pushed pawn stands on the b- or g-file and the only capturer on a / h
            let f = oracle::file_of(p0.ep);
            let r = if p0.stm == oracle::WHITE { 4 } else { 3 };
            let mine = oracle::pc(p0.stm, oracle::P);
            let on = |ff: i8| oracle::on_board(ff, r) && p0.sq[oracle::sq(ff, r) as usize] == mine;
            let ok = (f == 1 && on(0) && !on(2)) || (f == 6 && on(7) && !on(5));
            if !ok {
                continue;
            }
        }
        let quiet = |p: &Pos| -> Vec<Mv> {
            p.legal_moves().into_iter().filter(|m| m.kind == MvKind::Normal && m.promo == 0 && !p.is_capture(m) && oracle::kind(p.sq[m.from as usize]) != oracle::P).collect()
        };
        for _ in 0..12 {
            let xs = quiet(&p0);
            if xs.is_empty() {
                break;
            }
            let x = *rng.pick(&xs);
            let p1 = p0.make(&x);
            let ys = quiet(&p1);
            if ys.is_empty() {
                continue;
            }
            let y = *rng.pick(&ys);
            let p2 = p1.make(&y);
            let Some(xb) = p2.legal_moves().into_iter().find(|m| m.from == x.to && m.to == x.from && m.kind == MvKind::Normal && m.promo == 0) else { continue };
            let p3 = p2.make(&xb);
            let Some(yb) = p3.legal_moves().into_iter().find(|m| m.from == y.to && m.to == y.from && m.kind == MvKind::Normal && m.promo == 0) else { continue };
            let p4 = p3.make(&yb);
            if p4.sq != p0.sq || p4.stm != p0.stm || p4.castle != p0.castle || p4.ep != oracle::NO_EP {
                continue;
            }
            let cycles = 1 + rng.below(3) as usize;
            let cut = rng.below(4) as usize;
            let mut moves = vec![];
            for _ in 0..cycles {
                moves.extend([x, y, xb, yb]);
            }
            // one more cycle, cut short: the game ends 1..4 plies into it (so the next moves return)
            moves.extend([x, y, xb, yb].iter().take(4 - cut.min(3) - 1).cloned());
            let mut start = p0.clone();
            start.half = rng.range(0, 20) as u32;
            start.full = rng.range(1, 120) as u32;
            let mut positions = vec![start.clone()];
            let mut cur = start.clone();
            let mut ok = true;
            for m in moves.iter() {
                match cur.legal_moves().into_iter().find(|l| l == m) {
                    Some(l) => cur = cur.make(&l),
                    None => {
                        ok = false;
                        break;
                    }
                }
                positions.push(cur.clone());
            }
            if ok {
                return Some(Game { start, startpos: false, moves, positions });
            }
        }
    }
    None
}

fn c09_inprocess(ctx: &Ctx) -> Stats {
    let n = ctx.budget(5000, 200_000);
    parallel(ctx.workers, |w| {
        let mut st = Stats::new();
        let mut rng = Rng::new(ctx.seed, 9000 + w as u64);
        for i in 0..(n / ctx.workers as u64 + 1) {
            if i >= 50 && ctx.past(0.6) {
                break;
            }
            let g = if i % 8 == 7 {
                match far_repeat_game(&mut rng) {
                    Some(g) => {
                        st.bump("histories_with_third_occurrence_more_than_100_plies_after_the_second");
                        g
                    }
                    None => repeat_game(&mut rng),
                }
            } else if i % 8 == 3 {
                match ep_lapse_game(&mut rng) {
                    Some(g) => {
                        st.bump("histories_in_which_a_capturable_en_passant_right_lapses_and_the_placement_returns");
                        g
                    }
                    None => repeat_game(&mut rng),
                }
            } else {
                repeat_game(&mut rng)
            };
            let cmd = g.command(None);
            let third = g.current().legal_moves().iter().any(|m| occurrences(&g, &g.current().make(m)).0 >= 2);
            st.case(hash64(&cmd), third);
            st.sample_tagged(if third { "third" } else { "plain" }, || g.json());
            let mut engine = Flounder::new();
            // "only the most recent position command counts": often precede it with another game
            let mode = i % 4;
            let mut earlier: Option<String> = None;
            if mode != 0 {
                let h1 = match mode {
                    1 => {
                        // an extension of g (so g is a prefix of the earlier command)
                        let mut e = g.clone();
                        let mut cur = e.current().clone();
                        for _ in 0..rng.range(1, 8) {
                            let l = cur.legal_moves();
                            if l.is_empty() {
                                break;
                            }
                            let m = *rng.pick(&l);
                            cur = cur.make(&m);
                            e.moves.push(m);
                            e.positions.push(cur.clone());
                        }
                        st.bump("earlier_command_extends_the_game");
                        e
                    }
                    2 => {
                        // a prefix of g
                        let mut e = g.clone();
                        let k = rng.below(g.moves.len() as u64 + 1) as usize;
                        e.moves.truncate(k);
                        e.positions.truncate(k + 1);
                        st.bump("earlier_command_is_a_prefix");
                        e
                    }
                    _ => {
                        st.bump("earlier_command_unrelated_game");
                        repeat_game(&mut rng)
                    }
                };
                let c1 = h1.command(None);
                let e = &mut engine;
                if engine_call(|| e.verif_handle_command(&c1)).is_err() {
                    continue; // C04's finding
                }
                earlier = Some(c1);
            }
            let case = || J::obj(vec![("kind", J::s("inprocess")), ("command", J::s(cmd.clone())), ("previous_command", J::s(earlier.clone().unwrap_or_default()))]);
            let r = {
                let e = &mut engine;
                engine_call(|| e.verif_handle_command(&cmd))
            };
            if r.is_err() {
                continue; // C04's finding
            }
            c09_check_successors(&mut engine, &g, &mut st, &case, if earlier.is_some() { "second position command on this engine" } else { "fresh engine" });
            st.bump("histories");
        }
        st
    })
}

/// Expected 'info depth 1 score cp X' for the game: max over moves of (0 if the move brings about
/// a third occurrence, else minus the engine's own full-window quiescence value of the successor).
/// None when a successor falls between the two readings of "same position".
fn expected_depth1(g: &Game, q: &mut Searcher) -> Option<(Val, bool)> {
    let cur = g.current();
    let legal = cur.legal_moves();
    if legal.is_empty() {
        return None;
    }
    let (lo, hi) = Searcher::verif_window();
    let mut best = Val::Loss;
    let mut best_plain = Val::Loss;
    for m in legal.iter() {
        let s = cur.make(m);
        let (strict, fide) = occurrences(g, &s);
        if strict < 2 && fide >= 2 {
            return None;
        }
        let b = Board::new(&s.to_fen());
        let n = q.verif_nodes();
        q.verif_timer().hard_cap = Some(n + 200_000);
        let qv = match engine_call(|| q.verif_quiesce(&b, lo, hi)) {
            Ok(v) => class(v).neg(),
            Err(_) => {
                *q = Searcher::new();
                return None;
            }
        };
        let v = if strict >= 2 { Val::Num(0) } else { qv };
        if v > best {
            best = v;
        }
        if qv > best_plain {
            best_plain = qv;
        }
    }
    Some((best, best != best_plain))
}

fn c09_blackbox(ctx: &Ctx) -> Stats {
    let n = ctx.budget(160, 3000);
    let workers = ctx.workers.min(8);
    parallel(workers, |w| {
        let mut st = Stats::new();
        let mut rng = Rng::new(ctx.seed, 9500 + w as u64);
        let mut q = Searcher::new();
        let mut eng = match bb::Engine::spawn(&ctx.engine_bin) {
            Ok(e) => e,
            Err(e) => {
                st.inconclusive.push(format!("cannot start the engine binary: {}", e));
                return st;
            }
        };
        let mut done = 0;
        let mut tries = 0;
        let target = n / workers as u64 + 1;
        while done < target && tries < target * 40 && (done < 3 || !ctx.out_of_time()) {
            tries += 1;
            let g = if rng.chance(1, 6) { ep_lapse_game(&mut rng).unwrap_or_else(|| repeat_game(&mut rng)) } else { repeat_game(&mut rng) };
            let (want, rule_matters) = match expected_depth1(&g, &mut q) {
                Some(x) => x,
                None => continue,
            };
            // half of the budget goes to games in which the repetition rule changes the score
            if !rule_matters && rng.chance(5, 6) {
                continue;
            }
            done += 1;
            let cmd = g.command(None);
            let script = vec!["ucinewgame".to_string(), cmd.clone(), "go depth 1".to_string()];
            let case = J::obj(vec![("kind", J::s("blackbox")), ("commands", J::arr_s(script.clone())), ("expected", J::s(want.show()))]);
            st.case(hash64(&(cmd.clone(), 9u8)), rule_matters);
            st.bump("blackbox_games");
            if rule_matters {
                st.bump("blackbox_games_where_the_rule_changes_the_score");
            }
            st.sample_tagged("blackbox", || case.clone());
            // every other game: the three commands back to back, no isready in between
            let r = if done % 2 == 1 {
                st.bump("blackbox_games_sent_without_isready_in_between");
                eng.send("ucinewgame").and_then(|_| eng.send(&cmd)).and_then(|_| eng.command("go depth 1", Duration::from_secs(60)))
            } else {
                eng.command("ucinewgame", Duration::from_secs(20)).and_then(|_| eng.command(&cmd, Duration::from_secs(20))).and_then(|_| eng.command("go depth 1", Duration::from_secs(60)))
            };
            match r {
                Ok(lines) => {
                    let score = lines.iter().find_map(|l| {
                        let t: Vec<&str> = l.split_whitespace().collect();
                        if t.first() == Some(&"info") && t.iter().position(|x| *x == "depth").and_then(|i| t.get(i + 1)) == Some(&"1") {
                            t.iter().position(|x| *x == "cp").and_then(|i| t.get(i + 1)).and_then(|x| x.parse::<i64>().ok())
                        } else {
                            None
                        }
                    });
                    match score {
                        None => st.bump("blackbox_no_info_line"),
                        Some(x) => {
                            let got = class(x.clamp(i32::MIN as i64, i32::MAX as i64) as i32);
                            if got != want {
                                st.violation(
                                    format!("C09:blackbox-score:{}", cmd),
                                    format!("after 'ucinewgame' and '{}', 'go depth 1' prints score {} but with third occurrences scored as draws the depth-1 value is {}", shorten(&cmd), x, want.show()),
                                    case,
                                );
                            }
                        }
                    }
                }
                Err(bb::Fail::Died(s)) => {
                    st.bump("blackbox_engine_died");
                    st.inconclusive.push(format!("engine ended ({}) during a C09 script — C03/C04 judge that", s));
                    eng = match bb::Engine::spawn(&ctx.engine_bin) {
                        Ok(e) => e,
                        Err(_) => break,
                    };
                }
                Err(bb::Fail::Timeout) => {
                    st.inconclusive.push("watchdog expired during a C09 script".into());
                    eng = match bb::Engine::spawn(&ctx.engine_bin) {
                        Ok(e) => e,
                        Err(_) => break,
                    };
                }
            }
        }
        eng.quit();
        st
    })
}


// ------------------------------------------------------- C09: the rule inside real deep searches

/// The position an engine board holds, as a reference position (counters irrelevant here).
fn pos_of_board(b: &Board) -> Option<Pos> {
    let r = eng::read_board(b).ok()?;
    Some(Pos { sq: r.sq, stm: r.stm, castle: r.castle, ep: r.ep, half: 0, full: 1 })
}

/// One case: fresh engine, the position command, then ONE search of `depth` iterations (bounded by a
/// node deadline) with the main-search node log on. Every node below the root is judged: a position
/// that already occurred twice in the game (root included) must have been answered as a repetition
/// draw, whatever the table holds; a position seen fewer than twice must not have been.
fn c09_insearch_case(g: &Game, earlier: Option<(&str, u8)>, depth: u8, node_limit: u64, st: &mut Stats, case: &dyn Fn() -> J) {
    let cmd = g.command(None);
    let mut engine = Flounder::new();
    if let Some((ecmd, edepth)) = earlier {
        // another game searched on this engine first (no ucinewgame in between): whatever the
        // engine prepared for that search must not leak into the next one
        let e = &mut engine;
        if engine_call(|| e.verif_handle_command(ecmd)).is_err() {
            return;
        }
        let b0 = *engine.verif_board();
        let s0 = engine.verif_searcher();
        s0.verif_timer().node_limit = Some(20_000);
        if engine_call(|| {
            s0.find_best_move(&b0, edepth, None);
        })
        .is_err()
        {
            return;
        }
        engine.verif_searcher().verif_timer().node_limit = None;
    }
    {
        let e = &mut engine;
        if engine_call(|| e.verif_handle_command(&cmd)).is_err() {
            return; // C04's finding
        }
    }
    let board = *engine.verif_board();
    let r = {
        let s = engine.verif_searcher();
        s.verif.nlog = Some(vec![]);
        s.verif_timer().node_limit = Some(node_limit);
        s.verif_timer().hard_cap = Some(node_limit * 4 + 1_000_000);
        engine_call(|| {
            s.find_best_move(&board, depth, None);
        })
    };
    if let Err(msg) = r {
        st.violation(format!("C09:insearch-panic:{}", cmd), format!("search after '{}' panicked: {}", shorten(&cmd), msg), case());
        return;
    }
    let log = engine.verif_searcher().verif.nlog.take().unwrap_or_default();
    let mut strict: HashMap<crate::oracle::PosKey, u32> = HashMap::new();
    let mut fide: HashMap<crate::oracle::PosKey, u32> = HashMap::new();
    for p in g.positions.iter() {
        *strict.entry(p.key()).or_insert(0) += 1;
        *fide.entry(p.key_fide()).or_insert(0) += 1;
    }
    st.bump("insearch_searches");
    for (b, ply, d, how) in log.iter() {
        if *ply == 0 {
            continue;
        }
        let Some(p) = pos_of_board(b) else { continue };
        let ns = strict.get(&p.key()).copied().unwrap_or(0);
        let nf = fide.get(&p.key_fide()).copied().unwrap_or(0);
        st.bump("insearch_nodes_judged");
        if *how == 0 {
            st.bump("insearch_nodes_answered_as_repetition_draw");
            if *ply >= 2 {
                st.bump("insearch_repetition_draws_two_or_more_plies_below_the_root");
            }
            if *ply >= 4 && p.key() == g.current().key() {
                st.bump("insearch_repetition_draws_on_return_to_the_root_position");
            }
        }
        if ns >= 2 && *how != 0 {
            st.violation(
                format!("C09:insearch-missed:{}:{}", cmd, p.to_fen()),
                format!(
                    "after '{}', inside the depth-{} search the position {} at ply {} (remaining depth {}) — which has already occurred {} times in the game — was {} instead of being scored as a draw",
                    shorten(&cmd),
                    depth,
                    p.to_fen(),
                    ply,
                    d,
                    ns,
                    if *how == 1 { "answered from the transposition table" } else { "searched" }
                ),
                case(),
            );
            return;
        }
        if nf < 2 && *how == 0 {
            st.violation(
                format!("C09:insearch-spurious:{}:{}", cmd, p.to_fen()),
                format!("after '{}', inside the depth-{} search the position {} at ply {} was scored as a repetition draw although it occurred only {} time(s) in the game", shorten(&cmd), depth, p.to_fen(), ply, nf),
                case(),
            );
            return;
        }
        if ns == 1 && *how != 0 {
            st.bump("insearch_nodes_seen_once_before_and_rightly_not_drawn");
        }
    }
}



/// An "offset perpetual": a sliding piece checks from t, the king steps aside, the piece retreats
/// along the same line to ANOTHER square than it came from, the king steps back, and the same check
/// is given again — so the position after the check is on record twice although the positions before
/// it differ. Seven plies from a sparse random position; None when the sample has no such line.
pub fn perpetual_game(rng: &mut Rng) -> Option<Game> {
    for _ in 0..400 {
        let men = 3 + rng.below(5) as i64;
        let start = gen::g_small(rng, men);
        let p0 = start.clone();
        let legal0 = p0.legal_moves();
        let checks: Vec<Mv> = legal0.iter().filter(|m| m.promo == 0 && !p0.is_capture(m) && matches!(oracle::kind(p0.sq[m.from as usize]), oracle::R | oracle::Q | oracle::B) && p0.gives_check(m)).cloned().collect();
        if checks.is_empty() {
            continue;
        }
        let m = *rng.pick(&checks);
        let q = p0.make(&m);
        let king_from = q.king_sq(q.stm)?;
        for r in q.legal_moves().into_iter().filter(|r| r.from == king_from && !q.is_capture(r)) {
            let p1 = q.make(&r);
            // retreat along the line of the check to another square than the original one
            for m2 in p1.legal_moves().into_iter().filter(|x| x.from == m.to && x.to != m.from && !p1.is_capture(x) && x.promo == 0) {
                let p2 = p1.make(&m2);
                if p2.in_check() {
                    continue;
                }
                let Some(r2) = p2.legal_moves().into_iter().find(|x| x.from == r.to && x.to == r.from && !p2.is_capture(x)) else { continue };
                let p0b = p2.make(&r2);
                let Some(m3) = p0b.legal_moves().into_iter().find(|x| x.from == m2.to && x.to == m.to) else { continue };
                let qb = p0b.make(&m3);
                if qb.key() != q.key() {
                    continue;
                }
                let p1b = qb.make(&r);
                let p2b = p1b.make(&m2);
                let moves = vec![m, r, m2, r2, m3, r, m2];
                let positions = vec![p0.clone(), q.clone(), p1.clone(), p2.clone(), p0b, qb, p1b, p2b];
                return Some(Game { start, startpos: false, moves, positions });
            }
        }
    }
    None
}

/// A game of the same length that ends in the same position as `g` but took another road: it starts
/// from the position `g` had after four plies, follows `g` to its end and then both sides move a
/// piece out and back. Same ply count, same final position, other occurrence counts.
fn same_end_other_road(g: &Game, rng: &mut Rng) -> Option<Game> {
    if g.moves.len() < 6 {
        return None;
    }
    let start = g.positions[4].clone();
    let mut moves: Vec<Mv> = g.moves[4..].to_vec();
    let mut positions: Vec<Pos> = g.positions[4..].to_vec();
    let end = g.current().clone();
    // out and back: a1 (mover), b1 (other side), a1 back, b1 back
    let mut cur = end.clone();
    for _ in 0..40 {
        let l1 = cur.legal_moves();
        if l1.is_empty() {
            return None;
        }
        let m1 = *rng.pick(&l1);
        let p1 = cur.make(&m1);
        let l2 = p1.legal_moves();
        if l2.is_empty() {
            continue;
        }
        let m2 = *rng.pick(&l2);
        let p2 = p1.make(&m2);
        let Some(m3) = p2.legal_moves().into_iter().find(|m| m.from == m1.to && m.to == m1.from && m.promo == 0) else { continue };
        let p3 = p2.make(&m3);
        let Some(m4) = p3.legal_moves().into_iter().find(|m| m.from == m2.to && m.to == m2.from && m.promo == 0) else { continue };
        let p4 = p3.make(&m4);
        if p4.key() != end.key() {
            continue;
        }
        moves.extend([m1, m2, m3, m4]);
        positions.extend([p1, p2, p3, p4]);
        cur = end;
        let _ = cur;
        return Some(Game { start, startpos: false, moves, positions });
    }
    None
}

fn c09_insearch(ctx: &Ctx) -> Stats {
    let n = ctx.budget(400, 12_000);
    let limit: u64 = if ctx.quick() { 30_000 } else { 150_000 };
    parallel(ctx.workers, |w| {
        let mut st = Stats::new();
        let mut rng = Rng::new(ctx.seed, 9300 + w as u64);
        for i in 0..(n / ctx.workers as u64 + 1) {
            if i >= 6 && ctx.past(0.8) {
                break;
            }
            let g = if i % 8 == 7 {
                far_repeat_game(&mut rng).unwrap_or_else(|| repeat_game(&mut rng))
            } else if i % 8 == 3 {
                match perpetual_game(&mut rng) {
                    Some(g) => {
                        st.bump("insearch_offset_perpetual_check_histories");
                        g
                    }
                    None => repeat_game(&mut rng),
                }
            } else {
                repeat_game(&mut rng)
            };
            if g.current().legal_moves().is_empty() {
                continue;
            }
            let depth = 4 + rng.below(4) as u8;
            let cmd = g.command(None);
            // a third of the cases: first another game of the same length ending in the same
            // position is set up and searched on the same engine (in either order)
            let mut first: Option<Game> = None;
            let mut g = g;
            if i % 3 == 1 {
                if let Some(other) = same_end_other_road(&g, &mut rng) {
                    if rng.chance(1, 2) {
                        first = Some(other);
                    } else {
                        first = Some(g.clone());
                        g = other;
                    }
                    st.bump("insearch_after_an_equal_length_game_ending_in_the_same_position");
                }
            }
            let cmd = if first.is_some() { g.command(None) } else { cmd };
            let ecmd = first.as_ref().map(|f| f.command(None));
            let edepth = 1 + rng.below(2) as u8;
            st.case(hash64(&(cmd.clone(), ecmd.clone(), depth, 0x15u8)), true);
            let case = || J::obj(vec![("kind", J::s("insearch")), ("command", J::s(cmd.clone())), ("depth", J::i(depth as i64)), ("node_limit", J::i(limit as i64)), ("earlier_command", J::s(ecmd.clone().unwrap_or_default())), ("earlier_depth", J::i(edepth as i64))]);
            st.sample_tagged(if first.is_some() { "insearch_after_other_game" } else { "insearch" }, || case());
            c09_insearch_case(&g, ecmd.as_deref().map(|c| (c, edepth)), depth, limit, &mut st, &case);
        }
        st
    })
}

pub fn run_c09(ctx: &Ctx) -> i32 {
    let spec = Spec {
        level: "exploration",
        rule: "a case is a game history given with a position command (startpos or FEN start, 2..40 moves that shuffle pieces out and back so that candidate successor positions have occurred 0, 1, 2 or more times, sometimes the initial position), optionally preceded on the same engine by another position command (an extension, a prefix, an unrelated game). For every successor S of the current position the engine's repetition answer (hook) must be 'draw' when S already occurred twice (identical placement, side, rights, ep target) and 'not a draw' when it occurred fewer than twice even under the FIDE reading of 'same position'; in between either answer is accepted. Inside real searches (hook: log of how every main-search node was answered): on a fresh engine, after the position command, one search of 4..7 iterations bounded by a node deadline; every node below the root whose position already occurred twice in the game (root included) must have been answered as a repetition draw — not from the table, not searched — and no node seen fewer than twice may be. In a third of these cases another game of the same length ending in the same position (another road: other occurrence counts) is set up and searched on the same engine first. End-to-end on the real binary: after 'ucinewgame', the position command and 'go depth 1', the printed depth-1 score must equal max over moves of (0 for a third occurrence, else minus the engine's own quiescence value). Distinct by command text; non-trivial when some successor is a third occurrence",
        assumptions: vec!["the reference rules implementation is correct (perft self-test at every run)".into(), "the end-to-end expectation uses the engine's own quiescence search (hook build of the same sources) for the values of non-repeating moves".into()],
        required: if ctx.replay.is_some() { vec![] } else { vec!["successor_seen_0_times", "successor_seen_1_time", "successor_seen_2_times", "successor_seen_3_or_more_times", "third_occurrence_of_the_initial_position", "earlier_command_extends_the_game", "earlier_command_is_a_prefix", "earlier_command_unrelated_game", "blackbox_games_where_the_rule_changes_the_score", "histories_with_third_occurrence_more_than_100_plies_after_the_second", "placement_recurs_with_other_rights_or_ep", "placement_recurs_after_a_capturable_en_passant_right_lapsed", "placement_recurs_after_a_lapsed_en_passant_right_on_the_b_or_g_file", "histories_in_which_a_capturable_en_passant_right_lapses_and_the_placement_returns", "insearch_nodes_answered_as_repetition_draw", "insearch_repetition_draws_two_or_more_plies_below_the_root", "insearch_repetition_draws_on_return_to_the_root_position", "insearch_nodes_seen_once_before_and_rightly_not_drawn", "insearch_after_an_equal_length_game_ending_in_the_same_position"] },
        exhaustive: false,
        extra: vec![],
    };
    if let Some(r) = ctx.replay.as_ref() {
        let mut st = Stats::new();
        if let Some(c) = r.get("case") {
            replay_c09(ctx, c, &mut st);
        }
        return finalize(ctx, spec, st);
    }
    let mut total = c09_inprocess(ctx);
    total.merge(c09_insearch(ctx));
    total.merge(c09_blackbox(ctx));
    finalize(ctx, spec, total)
}

fn game_of_command(cmd: &str) -> Option<Game> {
    let (_, all) = reference_of_command(cmd)?;
    let t: Vec<&str> = cmd.split_whitespace().collect();
    let startpos = t.get(1) == Some(&"startpos");
    let mut moves = vec![];
    if let Some(i) = t.iter().position(|x| *x == "moves") {
        for (k, u) in t[i + 1..].iter().enumerate() {
            moves.push(all[k].find_uci(u)?);
        }
    }
    Some(Game { start: all[0].clone(), startpos, moves, positions: all })
}

fn replay_c09(ctx: &Ctx, c: &J, st: &mut Stats) {
    if c.str_of("kind") == "blackbox" {
        let cmds: Vec<String> = c.get("commands").and_then(|a| a.as_arr()).map(|a| a.iter().filter_map(|x| x.as_str().map(|s| s.to_string())).collect()).unwrap_or_default();
        let g = match cmds.iter().find(|c| c.starts_with("position")).and_then(|c| game_of_command(c)) {
            Some(g) => g,
            None => {
                st.inconclusive.push("replay: no well-formed position command".into());
                return;
            }
        };
        let mut q = Searcher::new();
        let want = match expected_depth1(&g, &mut q) {
            Some(x) => x.0,
            None => {
                st.inconclusive.push("replay: expectation undefined".into());
                return;
            }
        };
        let mut e = match bb::Engine::spawn(&ctx.engine_bin) {
            Ok(e) => e,
            Err(m) => {
                st.inconclusive.push(m);
                return;
            }
        };
        let mut lines = vec![];
        for cmd in cmds.iter() {
            st.case(hash64(cmd), true);
            match e.command(cmd, Duration::from_secs(60)) {
                Ok(l) => lines = l,
                Err(_) => {
                    st.inconclusive.push("engine failed during replay".into());
                    return;
                }
            }
        }
        let score = lines.iter().find_map(|l| {
            let t: Vec<&str> = l.split_whitespace().collect();
            t.iter().position(|x| *x == "cp").and_then(|i| t.get(i + 1)).and_then(|x| x.parse::<i64>().ok())
        });
        if let Some(x) = score {
            if class(x.clamp(i32::MIN as i64, i32::MAX as i64) as i32) != want {
                st.violation("C09:replay:score", format!("depth-1 score {} but expected {}", x, want.show()), c.clone());
            }
        }
        return;
    }
    if c.str_of("kind") == "insearch" {
        let cmd = c.str_of("command");
        match game_of_command(&cmd) {
            Some(g) => {
                st.case(hash64(&cmd), true);
                let cc = c.clone();
                let ec = c.str_of("earlier_command");
                c09_insearch_case(&g, if ec.is_empty() { None } else { Some((ec.as_str(), c.int_of("earlier_depth").max(1) as u8)) }, c.int_of("depth") as u8, c.int_of("node_limit") as u64, st, &|| cc.clone());
            }
            None => st.inconclusive.push("replay: the command is not a well-formed legal game".into()),
        }
        return;
    }
    let mut engine = Flounder::new();
    let prev = c.str_of("previous_command");
    if !prev.is_empty() {
        let e = &mut engine;
        let _ = engine_call(|| e.verif_handle_command(&prev));
    }
    let cmd = c.str_of("command");
    let g = match game_of_command(&cmd) {
        Some(g) => g,
        None => {
            st.inconclusive.push("replay: the command is not a well-formed legal game".into());
            return;
        }
    };
    st.case(hash64(&cmd), true);
    {
        let e = &mut engine;
        if engine_call(|| e.verif_handle_command(&cmd)).is_err() {
            st.inconclusive.push("replay: the position command panicked (C04)".into());
            return;
        }
    }
    let cc = c.clone();
    c09_check_successors(&mut engine, &g, st, &|| cc.clone(), "replay");
}
