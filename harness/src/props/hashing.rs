//! C11 — the position hash depends on the position and nothing else, for every key set drawn.
use crate::board::Board;
use crate::eng;
use crate::gen;
use crate::json::J;
use crate::move_gen::MoveGenerator;
use crate::oracle::{self, *};
use crate::report::{engine_call, finalize, parallel, Ctx, Spec, Stats};
use crate::rng::{hash64, Rng};
use crate::zobrist::ZobristTable;
use std::collections::HashMap;

/// Single-component variations of `p` that are still valid positions, with a label.
fn variations(p: &Pos, rng: &mut Rng) -> Vec<(&'static str, Pos)> {
    let mut out = vec![];
    let occupied: Vec<u8> = (0..64u8).filter(|&s| p.sq[s as usize] != 0).collect();
    let mut try_push = |label: &'static str, q: Pos, out: &mut Vec<(&'static str, Pos)>| {
        if q.validity().is_ok() && q.key() != p.key() {
            out.push((label, q));
        }
    };
    // piece changes (a handful of random squares each)
    for _ in 0..3 {
        let s = *rng.pick(&occupied);
        let pcode = p.sq[s as usize];
        if kind(pcode) != K {
            let mut q = p.clone();
            q.sq[s as usize] = 0;
            try_push("remove_piece", q, &mut out);
            let mut q = p.clone();
            q.sq[s as usize] = pc(color(pcode) ^ 1, kind(pcode));
            try_push("recolour_piece", q, &mut out);
            let nk = *rng.pick(&[P, N, B, R, Q]);
            if nk != kind(pcode) {
                let mut q = p.clone();
                q.sq[s as usize] = pc(color(pcode), nk);
                try_push("retype_piece", q, &mut out);
            }
        }
        let t = rng.below(64) as u8;
        if p.sq[t as usize] == 0 {
            let mut q = p.clone();
            q.sq[t as usize] = pcode;
            q.sq[s as usize] = 0;
            try_push("relocate_piece", q, &mut out);
            let mut q = p.clone();
            q.sq[t as usize] = pc(rng.below(2) as u8, *rng.pick(&[P, N, B, R, Q]));
            try_push("add_piece", q, &mut out);
        }
    }
    // exchange the contents of two squares (kings included): finds keys shared between kinds
    for _ in 0..3 {
        let (a, b) = (*rng.pick(&occupied), *rng.pick(&occupied));
        if p.sq[a as usize] != p.sq[b as usize] {
            let mut q = p.clone();
            q.sq.swap(a as usize, b as usize);
            // rights whose king/rook left home would make the variant invalid: drop them in both
            // (the comparison below is between p and q as given, so only keep q when rights still fit)
            try_push("exchange_two_squares", q, &mut out);
        }
    }
    // side to move (only without an ep target: the target belongs to one side)
    if p.ep == NO_EP {
        let mut q = p.clone();
        q.stm ^= 1;
        try_push("flip_side_to_move", q, &mut out);
    }
    for (bit, label) in [(WK, "toggle_white_kingside"), (WQ, "toggle_white_queenside"), (BK, "toggle_black_kingside"), (BQ, "toggle_black_queenside")] {
        let mut q = p.clone();
        q.castle ^= bit;
        try_push(label, q, &mut out);
    }
    // ep: only variants in which a capture is legally possible count as different positions under
    // both conventions in use
    let mut eps = vec![];
    let them = p.stm ^ 1;
    let (ep_rank, pawn_rank, from_rank) = if them == WHITE { (2, 3, 1) } else { (5, 4, 6) };
    for f in 0..8 {
        if p.sq[sq(f, pawn_rank) as usize] == pc(them, P) && p.sq[sq(f, ep_rank) as usize] == 0 && p.sq[sq(f, from_rank) as usize] == 0 {
            let mut q = p.clone();
            q.ep = sq(f, ep_rank);
            if q.ep_capture_legal() {
                eps.push(q);
            }
        }
    }
    if !eps.is_empty() {
        let mut none = p.clone();
        none.ep = NO_EP;
        let base_is_none = p.ep == NO_EP;
        for q in eps.iter() {
            if base_is_none {
                out.push(("ep_none_vs_file", q.clone()));
            } else if q.ep != p.ep && p.ep_capture_legal() {
                out.push(("ep_file_vs_other_file", q.clone()));
            }
        }
        if !base_is_none && p.ep_capture_legal() {
            out.push(("ep_file_vs_none", none));
        }
    }
    out
}


/// The COMPLETE single-component neighbourhood of `p`: every square set to every piece code or
/// emptied, the side to move flipped, each castling right toggled, every en-passant target set or
/// cleared — as far as the result is a valid position that differs from `p` under the FIDE reading.
/// All of these are different positions, from `p` and from one another.
fn neighbourhood(p: &Pos) -> Vec<(String, Pos)> {
    let mut out: Vec<(String, Pos)> = vec![];
    let base = p.key_fide();
    let mut push = |label: String, q: Pos, out: &mut Vec<(String, Pos)>| {
        if q.validity().is_ok() && q.key_fide() != base {
            out.push((label, q));
        }
    };
    for s in 0..64usize {
        for code in 0..=12u8 {
            // piece codes: 0 empty, then pc(colour, kind)
            let piece = if code == 0 { 0 } else { pc((code - 1) / 6, (code - 1) % 6 + 1) };
            if piece == p.sq[s] || (piece != 0 && kind(piece) == K) || kind(p.sq[s]) == K {
                continue;
            }
            let mut q = p.clone();
            q.sq[s] = piece;
            push(format!("{}={}", sq_name(s as u8), code), q, &mut out);
        }
    }
    // a king relocated to every empty square
    for col in [WHITE, BLACK] {
        if let Some(k) = p.king_sq(col) {
            for t in 0..64usize {
                if p.sq[t] == 0 {
                    let mut q = p.clone();
                    q.sq[k as usize] = 0;
                    q.sq[t] = pc(col, K);
                    push(format!("king{}->{}", col, sq_name(t as u8)), q, &mut out);
                }
            }
        }
    }
    if p.ep == NO_EP {
        let mut q = p.clone();
        q.stm ^= 1;
        push("side".into(), q, &mut out);
    }
    for (bit, label) in [(WK, "K"), (WQ, "Q"), (BK, "k"), (BQ, "q")] {
        let mut q = p.clone();
        q.castle ^= bit;
        push(format!("right {}", label), q, &mut out);
    }
    for t in 0..64u8 {
        let mut q = p.clone();
        q.ep = if p.ep == t { NO_EP } else { t };
        // only targets with a legal capture are different positions under both conventions
        if q.ep != NO_EP && !(q.validity().is_ok() && q.ep_capture_legal()) {
            continue;
        }
        if q.ep == NO_EP && !p.ep_capture_legal() {
            continue;
        }
        push(format!("ep {}", if q.ep == NO_EP { "-".to_string() } else { sq_name(q.ep) }), q, &mut out);
    }
    out
}

/// Neighbourhood probe: all members of the complete neighbourhood of one base position (and the
/// base itself) must have pairwise different hashes — this finds any two features sharing a key
/// (a pawn key doubling as an en-passant key, a castling key equal to the side key, ...), whatever
/// the internal structure of the hash.
fn neighbourhood_probe(z: &ZobristTable, p: &Pos, st: &mut Stats) {
    let h0 = z.hash(&eng::board_from_pos(p));
    let mut seen: HashMap<u64, (String, Pos)> = HashMap::new();
    seen.insert(h0, ("base".into(), p.clone()));
    let nb = neighbourhood(p);
    st.bump("neighbourhood_probes");
    st.add("neighbourhood_members_hashed", nb.len() as u64);
    for (label, q) in nb {
        if q.ep != NO_EP {
            st.bump("neighbourhood_members_with_en_passant_target");
        }
        let h = z.hash(&eng::board_from_pos(&q));
        if let Some((l0, q0)) = seen.get(&h) {
            if q0.key_fide() != q.key_fide() {
                st.violation(
                    format!("C11:neighbourhood:{}:{}:{}", p.to_fen(), l0, label),
                    format!("the different positions {} and {} (one-component changes '{}' and '{}' of {}) hash equal ({:#x})", q0.to_fen(), q.to_fen(), l0, label, p.to_fen(), h),
                    J::obj(vec![("kind", J::s("neighbourhood")), ("base", J::s(p.to_fen())), ("a", J::s(q0.to_fen())), ("b", J::s(q.to_fen()))]),
                );
                return;
            }
        } else {
            seen.insert(h, (label, q));
        }
    }
}

fn play_inplace(start: &Pos, moves: &[Mv], mg: &MoveGenerator) -> Option<Board> {
    let mut b = eng::board_from_pos(start);
    for m in moves {
        let u = m.uci();
        let ms = mg.generate_moves(&b);
        let em = *ms.iter().find(|x| x.to_algebraic() == u)?;
        b.make_move(&em);
    }
    Some(b)
}

/// From `start`, find move sequences of 4 plies whose reordering is legal and reaches the same
/// position (by the rules), returning both orders.
fn transposition(start: &Pos, rng: &mut Rng) -> Option<(Vec<Mv>, Vec<Mv>, Pos)> {
    let mut seq = vec![];
    let mut cur = start.clone();
    for _ in 0..4 {
        let l = cur.legal_moves();
        if l.is_empty() {
            return None;
        }
        let m = *rng.pick(&l);
        cur = cur.make(&m);
        seq.push(m);
    }
    for perm in [[2usize, 1, 0, 3], [0, 3, 2, 1], [2, 3, 0, 1]] {
        let alt: Vec<Mv> = perm.iter().map(|&i| seq[i]).collect();
        if alt == seq {
            continue;
        }
        let mut c = start.clone();
        let mut ok = true;
        let mut alt_real = vec![];
        for m in alt.iter() {
            match c.find_uci(&m.uci()) {
                Some(x) => {
                    c = c.make(&x);
                    alt_real.push(x);
                }
                None => {
                    ok = false;
                    break;
                }
            }
        }
        if ok && c.key() == cur.key() {
            return Some((seq, alt_real, cur));
        }
    }
    None
}

/// Search-key audit: the keys under which a real search files its results must be the hashes of positions
/// that search visited — a key carried down the tree and updated move by move has to agree with the hash
/// computed from the board, or the hash of a position depends on how it was reached. Observed: every key in
/// the table after a depth 2..4 search on a fresh engine; expected: the from-scratch hash (hook verif_hash,
/// the engine's own ZobristTable::hash with the searcher's keys) of the root or of a position recorded by
/// the node logs (every main-search node and every quiescence node).
fn search_key_audit(p: &Pos, depth: u8, st: &mut Stats) {
    use crate::search::Searcher;
    let b = eng::board_from_pos(p);
    crate::report::note_case(&format!("search-key audit of {} at depth {}", p.to_fen(), depth));
    let r = engine_call(|| {
        let mut s = Searcher::new();
        s.verif.nlog = Some(vec![]);
        s.verif.qlog = Some(vec![]);
        s.verif_timer().hard_cap = Some(3_000_000);
        s.find_best_move(&b, depth, None);
        let mut known: std::collections::HashSet<u64> = std::collections::HashSet::new();
        known.insert(s.verif_hash(&b));
        let nl = s.verif.nlog.take().unwrap_or_default();
        let ql = s.verif.qlog.take().unwrap_or_default();
        for (nb, _, _, _) in nl.iter() {
            known.insert(s.verif_hash(nb));
        }
        for (qb, _, _) in ql.iter() {
            known.insert(s.verif_hash(qb));
        }
        let entries = s.verif_tt_entries();
        let orphans: Vec<u64> = entries.iter().map(|e| e.hash_key).filter(|k| !known.contains(k)).collect();
        (entries.len(), orphans, nl.len() + ql.len())
    });
    match r {
        Err(msg) => {
            if msg.contains("hard node cap") {
                st.bump("search_key_audits_skipped_search_too_large");
            }
            // any other panic inside a search is C03/C05's finding, not a statement about hashing
        }
        Ok((n, orphans, visited)) => {
            st.bump("search_key_audits");
            st.add("table_keys_traced_to_visited_positions", (n - orphans.len()) as u64);
            st.add("positions_logged_by_audited_searches", visited as u64);
            if !orphans.is_empty() {
                st.violation(
                    format!("C11:search-key:{}:{}", p.to_fen(), depth),
                    format!(
                        "after searching {} to depth {} on a fresh engine, {} of the {} keys in the table are not the hash of any position the search visited (e.g. {:#x}): the search files positions under keys that depend on how they were reached",
                        p.to_fen(),
                        depth,
                        orphans.len(),
                        n,
                        orphans[0]
                    ),
                    J::obj(vec![("kind", J::s("search_key")), ("fen", J::s(p.to_fen())), ("depth", J::i(depth as i64))]),
                );
            }
        }
    }
}

/// true when a capturing promotion is available at `p` or one ply below it
fn capturing_promotion_near(p: &Pos) -> bool {
    let has = |q: &Pos| q.legal_moves().iter().any(|m| m.promo != 0 && q.sq[m.to as usize] != 0);
    if has(p) {
        return true;
    }
    p.legal_moves().iter().take(40).any(|m| has(&p.make(m)))
}

fn search_key_part(ctx: &Ctx) -> Stats {
    let n = ctx.budget(640, 12000);
    parallel(ctx.workers, |w| {
        let mut st = Stats::new();
        let mut rng = Rng::new(ctx.seed, 270 + w as u64);
        for k in 0..(n / ctx.workers as u64 + 1) {
            if k >= 2 && ctx.out_of_time() {
                break;
            }
            let p = match k % 6 {
                0 => gen::g_promo(&mut rng),
                1 => gen::g_ep(&mut rng),
                2 => gen::g_castle(&mut rng),
                3 => gen::g_small(&mut rng, 8),
                4 => gen::g_underpromo(&mut rng),
                _ => gen::g_game_pos(&mut rng),
            };
            if p.legal_moves().is_empty() {
                continue;
            }
            let depth = if p.piece_count() <= 8 { 2 + rng.below(3) as u8 } else { 2 + rng.below(2) as u8 };
            st.case(hash64(&(0x5eau64, p.key(), depth)), true);
            if capturing_promotion_near(&p) {
                st.bump("search_key_audits_with_a_capturing_promotion_near_the_root");
            }
            if p.ep != NO_EP {
                st.bump("search_key_audits_of_positions_with_an_en_passant_target");
            }
            if p.castle != 0 {
                st.bump("search_key_audits_of_positions_with_castling_rights");
            }
            st.sample_tagged("search_key_audit", || J::obj(vec![("kind", J::s("search_key")), ("fen", J::s(p.to_fen())), ("depth", J::i(depth as i64))]));
            search_key_audit(&p, depth, &mut st);
        }
        st
    })
}

pub fn run(ctx: &Ctx) -> i32 {
    let spec = Spec {
        level: "exploration",
        rule: "cases are (key set, position) pairs: for every key set drawn (ZobristTable::new(), fresh random keys) and every generated position the hash of the board played in place must equal the hash of the board rebuilt from FEN with different move counters and the hash of the board reached through a transposed move order; every valid single-component variation (remove/recolour/retype/relocate/add one piece, flip side, toggle each castling right, ep none/file/other file with a legal capture) must hash differently; no two distinct positions of the run may collide under one key set; the first board a key set is asked about is the last one the previous key set on the same thread was asked about, and its hash is asked again at the end of the key set (it must not depend on the call history); neighbourhood probe: for three base positions per key set the COMPLETE one-component neighbourhood (every square set to every piece or emptied, kings relocated, side, each right, every en-passant target with a legal capture) is hashed and all members must differ pairwise, which exposes any two features sharing a key; search-key audit: after a depth 2..4 search on a fresh engine (promotion, en-passant, castling studies, few-men and game positions) every key in the transposition table must be the from-scratch hash of the root or of a position the search's node logs recorded, so a key carried incrementally down the tree that disagrees with the hash of the board (i.e. depends on the path) shows. Distinct by (key set index, position); non-trivial = all",
        assumptions: vec![
            "64-bit random keys: a spurious equality between two different positions has probability < 1e-12 per run and is accepted".into(),
            "key sets not drawn in this run are not covered; each run draws fresh ones from the engine's own generator".into(),
            "rules oracle validated by perft at start".into(),
        ],
        required: if ctx.replay.is_some() { vec![] } else { vec!["same_inplace_vs_fen", "same_transposition", "diff_remove_piece", "diff_exchange_two_squares", "diff_flip_side_to_move", "diff_toggle_white_kingside", "diff_toggle_black_queenside", "diff_ep_none_vs_file", "diff_ep_file_vs_other_file", "key_sets", "first_board_of_a_key_set_was_the_last_board_of_the_previous_one", "neighbourhood_probes", "neighbourhood_members_with_en_passant_target", "search_key_audits", "search_key_audits_with_a_capturing_promotion_near_the_root", "search_key_audits_of_positions_with_an_en_passant_target", "search_key_audits_of_positions_with_castling_rights"] },
        exhaustive: false,
        extra: vec![],
    };
    if let Some(c) = ctx.replay.as_ref().and_then(|r| r.get("case")).filter(|c| c.str_of("kind") == "search_key") {
        let mut st = Stats::new();
        match Pos::from_fen(&c.str_of("fen")) {
            Ok(p) => {
                st.case(hash64(&(0x5eau64, p.key())), true);
                search_key_audit(&p, c.int_of("depth") as u8, &mut st);
            }
            Err(_) => st.inconclusive.push("replay: bad fen".into()),
        }
        return finalize(ctx, spec, st);
    }
    let key_sets = if ctx.replay.is_some() { 4 } else { ctx.budget(256, 4096) };
    let positions_per_set = if ctx.replay.is_some() { 1 } else { ctx.budget(1500, 4000) };
    let per_worker = key_sets / ctx.workers as u64 + 1;
    let total = parallel(ctx.workers, |w| {
        let mut st = Stats::new();
        let mut rng = Rng::new(ctx.seed, 200 + w as u64);
        let mg = MoveGenerator::new();
        let mut last_hashed: Option<Pos> = None;
        for ks in 0..per_worker {
            if ctx.out_of_time() {
                break;
            }
            let z = ZobristTable::new();
            st.bump("key_sets");
            let ksid = (w as u64) << 32 | ks;
            // the very first board this key set is asked about is the very last one the previous key set
            // (same thread) was asked about — as after ucinewgame when the new game starts where the old
            // search stood; its hash is asked again at the end of the key set and must not have changed
            let carried: Option<(Pos, u64)> = last_hashed.take().map(|p: Pos| {
                let h = z.hash(&eng::board_from_pos(&p));
                (p, h)
            });
            let mut seen: HashMap<u64, PosKey> = HashMap::new();
            let mut n = 0;
            if let Some(c) = ctx.replay.as_ref().and_then(|r| r.get("case")).filter(|c| c.str_of("kind") == "neighbourhood") {
                // replay of a neighbourhood collision: the two positions under fresh key sets
                if let (Ok(a), Ok(b)) = (Pos::from_fen(&c.str_of("a")), Pos::from_fen(&c.str_of("b"))) {
                    st.case(hash64(&(ksid, a.key())), true);
                    let (ha, hb) = (z.hash(&eng::board_from_pos(&a)), z.hash(&eng::board_from_pos(&b)));
                    if ha == hb && a.key_fide() != b.key_fide() {
                        st.violation(format!("C11:neighbourhood:{}", c.str_of("base")), format!("the different positions {} and {} hash equal ({:#x})", a.to_fen(), b.to_fen(), ha), c.clone());
                    }
                }
                continue;
            }
            if ctx.replay.is_none() {
                // bases with pawns on the en-passant ranks (either side to move), castling rights and a mixed bag
                for k in 0..3 {
                    let mut b = match k {
                        0 => gen::g_ep(&mut rng),
                        1 => gen::g_castle(&mut rng),
                        _ => gen::g_game_pos(&mut rng),
                    };
                    b.ep = NO_EP;
                    if b.validity().is_ok() {
                        st.case(hash64(&(ksid, b.key(), 0x4eu8)), true);
                        neighbourhood_probe(&z, &b, &mut st);
                    }
                }
            }
            while n < positions_per_set {
                // a game prefix played in place
                let (start, plies) = if let Some(r) = ctx.replay.as_ref() {
                    (Pos::from_fen(&r.get("case").map(|c| c.str_of("start")).unwrap_or_default()).unwrap_or_else(|_| Pos::start()), 0)
                } else {
                    match rng.below(6) {
                        0 => (Pos::start(), rng.range(0, 80) as usize),
                        1 => (gen::corpus_pos(rng.below(gen::CORPUS.len() as u64) as usize), rng.range(0, 30) as usize),
                        2 => (gen::g_ep(&mut rng), rng.range(0, 2) as usize),
                        3 => (gen::g_castle(&mut rng), rng.range(0, 6) as usize),
                        _ => (gen::synth(&mut rng), rng.range(0, 10) as usize),
                    }
                };
                let (ps, ms) = if let Some(r) = ctx.replay.as_ref() {
                    let mut cur = start.clone();
                    let mut ps = vec![cur.clone()];
                    let mut ms = vec![];
                    for u in r.get("case").and_then(|c| c.get("moves")).and_then(|m| m.as_arr()).cloned().unwrap_or_default() {
                        if let Some(m) = cur.find_uci(u.as_str().unwrap_or("")) {
                            cur = cur.make(&m);
                            ms.push(m);
                            ps.push(cur.clone());
                        }
                    }
                    (ps, ms)
                } else {
                    gen::playout(&start, &mut rng, plies)
                };
                let p = ps.last().unwrap().clone();
                n += 1;
                crate::report::note_case(&p.to_fen());
                st.case(hash64(&(ksid, p.key())), true);
                let case = || {
                    J::obj(vec![("start", J::s(start.to_fen())), ("moves", J::arr_s(ms.iter().map(|m| m.uci()))), ("position", J::s(p.to_fen()))])
                };
                st.sample_tagged(if ms.is_empty() { "fen_only" } else { "after_game_prefix" }, case);
                let inplace = match engine_call(|| play_inplace(&start, &ms, &mg)) {
                    Ok(Some(b)) => b,
                    _ => continue, // C01/C02's concern
                };
                let h = match engine_call(|| z.hash(&inplace)) {
                    Ok(h) => h,
                    Err(m) => {
                        st.violation(format!("C11:panic:{}", p.to_fen()), format!("hash panicked on {}: {}", p.to_fen(), m), case());
                        continue;
                    }
                };
                // same => same: rebuilt from FEN with other counters
                let mut q = p.clone();
                q.half = rng.below(100) as u32;
                q.full = 1 + rng.below(300) as u32;
                let h2 = z.hash(&eng::board_from_pos(&q));
                st.bump("same_inplace_vs_fen");
                if h != h2 {
                    st.violation(
                        format!("C11:same-differs:fen:{}", p.to_fen()),
                        format!("same position hashes differently in place ({:#x}) and rebuilt from FEN '{}' ({:#x})", h, q.to_fen(), h2),
                        case(),
                    );
                }
                // same => same: transposed move order
                if let Some((a, b, end)) = transposition(&p, &mut rng) {
                    if let (Ok(Some(ba)), Ok(Some(bb))) = (engine_call(|| play_inplace(&p, &a, &mg)), engine_call(|| play_inplace(&p, &b, &mg))) {
                        st.bump("same_transposition");
                        let (ha, hb) = (z.hash(&ba), z.hash(&bb));
                        if ha != hb {
                            st.violation(
                                format!("C11:same-differs:transposition:{}", p.to_fen()),
                                format!(
                                    "move orders {:?} and {:?} from {} reach the same position {} but hash {:#x} vs {:#x}",
                                    gen::describe_moves(&a),
                                    gen::describe_moves(&b),
                                    p.to_fen(),
                                    end.to_fen(),
                                    ha,
                                    hb
                                ),
                                case(),
                            );
                        }
                    }
                }
                // different => different
                for (label, v) in variations(&p, &mut rng) {
                    let hv = z.hash(&eng::board_from_pos(&v));
                    st.bump(&format!("diff_{}", label));
                    if hv == h {
                        st.violation(
                            format!("C11:diff-same:{}:{}", label, p.to_fen()),
                            format!("{}: positions {} and {} differ but hash equal ({:#x})", label, p.to_fen(), v.to_fen(), h),
                            case(),
                        );
                    }
                }
                // no collisions among the distinct positions of this key set
                if let Some(prev) = seen.get(&h) {
                    if *prev != p.key() {
                        st.violation(
                            format!("C11:collision:{}", p.to_fen()),
                            format!("two distinct positions of the run hash to {:#x} under one key set (second: {})", h, p.to_fen()),
                            case(),
                        );
                    }
                } else {
                    seen.insert(h, p.key());
                }
            }
            st.add("positions_hashed", seen.len() as u64);
            if ctx.replay.is_none() {
                if let Some((p, h0)) = carried {
                    st.bump("first_board_of_a_key_set_was_the_last_board_of_the_previous_one");
                    let h1 = z.hash(&eng::board_from_pos(&p));
                    if h0 != h1 {
                        st.violation(
                            format!("C11:same-differs:call-history:{}", p.to_fen()),
                            format!("one key set gives {} two hashes: {:#x} when it was the first board asked about (right after another key set had been asked about it) and {:#x} later", p.to_fen(), h0, h1),
                            J::obj(vec![("start", J::s(p.to_fen())), ("moves", J::arr_s(Vec::<String>::new())), ("position", J::s(p.to_fen()))]),
                        );
                    }
                }
                // the last board this key set is asked about
                let p = gen::g_game_pos(&mut rng);
                let _ = z.hash(&eng::board_from_pos(&p));
                last_hashed = Some(p);
            }
        }
        st
    });
    let mut total = total;
    if ctx.replay.is_none() {
        total.merge(search_key_part(ctx));
    }
    finalize(ctx, spec, total)
}
