//! C14 — static evaluation is a symmetric, bounded, pure function of the position.
use crate::eng;
use crate::eval::Evaluator;
use crate::gen;
use crate::json::J;
use crate::oracle::{self, *};
use crate::report::{engine_call, finalize, parallel, Ctx, Spec, Stats};
use crate::rng::{hash64, Rng};

const BOUND: i32 = 30_000; // the search window is +-32767; today's extreme (nine queens) is ~12 800

/// heavy-material positions: up to nine queens per side (promoted pawns), still valid
fn g_heavy(rng: &mut Rng) -> Pos {
    loop {
        let mut p = Pos::empty();
        p.stm = rng.below(2) as u8;
        let strong = rng.below(2) as u8;
        let wk = rng.below(64) as u8;
        p.sq[wk as usize] = pc(WHITE, K);
        let bk = loop {
            let s = rng.below(64) as u8;
            if p.sq[s as usize] == 0 {
                break s;
            }
        };
        p.sq[bk as usize] = pc(BLACK, K);
        let n = rng.range(6, 15);
        for i in 0..n {
            let k = if i < 9 { Q } else { *rng.pick(&[R, B, N]) };
            let s = rng.below(64) as u8;
            if p.sq[s as usize] == 0 {
                p.sq[s as usize] = pc(strong, k);
            }
        }
        if rng.chance(1, 2) {
            for _ in 0..rng.range(0, 15) {
                let s = rng.below(64) as u8;
                if p.sq[s as usize] == 0 {
                    p.sq[s as usize] = pc(strong ^ 1, *rng.pick(&[Q, Q, R, B, N]));
                }
            }
        }
        if p.validity().is_ok() {
            return p;
        }
    }
}

fn case_json(p: &Pos) -> J {
    J::obj(vec![("fen", J::s(p.to_fen()))])
}

fn check(p: &Pos, ev: &mut Evaluator, prev: &mut Vec<(Pos, i32)>, st: &mut Stats, rng: &mut Rng) {
    crate::report::note_case(&p.to_fen());
    let b = eng::board_from_pos(p);
    // fresh evaluator = the reference for purity
    let fresh = match engine_call(|| Evaluator::new().evaluate(&b)) {
        Ok(v) => v,
        Err(m) => {
            st.violation(format!("C14:panic:{}", p.placement_fen()), format!("evaluate panicked on {}: {}", p.to_fen(), m), case_json(p));
            return;
        }
    };
    let nontrivial = p.piece_count() > 2;
    st.case(hash64(&(p.sq, p.stm)), nontrivial);
    st.maxi("max_abs_eval", fresh.unsigned_abs() as u64);
    // purity: the long-lived evaluator (which has evaluated other positions before) must agree
    let reused = ev.evaluate(&b);
    st.bump("purity_checks");
    if reused != fresh {
        st.violation(
            format!("C14:purity:{}", p.placement_fen()),
            format!("evaluate({}) = {} on a used evaluator but {} on a fresh one", p.to_fen(), reused, fresh),
            J::obj(vec![("fen", J::s(p.to_fen())), ("previous", J::arr_s(prev.iter().map(|(q, _)| q.to_fen())))]),
        );
    }
    // A, B, A: re-evaluate an earlier position
    if !prev.is_empty() && rng.chance(1, 2) {
        let (q, was) = prev[rng.below(prev.len() as u64) as usize].clone();
        let again = ev.evaluate(&eng::board_from_pos(&q));
        st.bump("aba_checks");
        if again != was {
            st.violation(
                format!("C14:purity-aba:{}", q.placement_fen()),
                format!("evaluate({}) changed from {} to {} after evaluating other positions", q.to_fen(), was, again),
                case_json(&q),
            );
        }
    }
    if prev.len() < 8 {
        prev.push((p.clone(), fresh));
    } else {
        let i = rng.below(8) as usize;
        prev[i] = (p.clone(), fresh);
    }
    // bounded
    if fresh.abs() >= BOUND {
        st.violation(
            format!("C14:bound:{}", p.placement_fen()),
            format!("|evaluate({})| = {} is not well inside the search window (+-32767)", p.to_fen(), fresh.abs()),
            case_json(p),
        );
    }
    // antisymmetric under side swap (when the swapped position is valid too)
    let mut sw = p.clone();
    sw.stm ^= 1;
    sw.ep = NO_EP;
    if sw.validity().is_ok() {
        let v = Evaluator::new().evaluate(&eng::board_from_pos(&sw));
        st.bump("side_swap_pairs");
        if v != -fresh {
            st.violation(
                format!("C14:antisymmetry:{}", p.placement_fen()),
                format!("evaluate = {} with {} to move but {} with the other side to move (expected {}) on {}", fresh, if p.stm == 0 { "white" } else { "black" }, v, -fresh, p.to_fen()),
                case_json(p),
            );
        }
    }
    // invariant under mirroring with colours exchanged
    let m = gen::mirror(p);
    let v = Evaluator::new().evaluate(&eng::board_from_pos(&m));
    st.bump("mirror_pairs");
    if v != fresh {
        st.violation(
            format!("C14:mirror:{}", p.placement_fen()),
            format!("evaluate({}) = {} but its mirror image {} evaluates to {}", p.to_fen(), fresh, m.to_fen(), v),
            case_json(p),
        );
    }
    // independent of castling rights, ep target and counters (placement and side only)
    let mut bare = p.clone();
    bare.castle = 0;
    bare.ep = NO_EP;
    bare.half = 7;
    bare.full = 99;
    if bare.key() != p.key() {
        let v = Evaluator::new().evaluate(&eng::board_from_pos(&bare));
        st.bump("flags_ignored_pairs");
        if v != fresh {
            st.violation(
                format!("C14:flags:{}", p.placement_fen()),
                format!("evaluate depends on rights/ep/counters: {} -> {}, {} -> {}", p.to_fen(), fresh, bare.to_fen(), v),
                case_json(p),
            );
        }
    }
}


/// Nearly full material with a pawn one step from promotion: the start position with one side's
/// pawn lifted to the seventh rank of a wing file (the enemy pawn and piece in its way removed).
fn g_early_promotion(rng: &mut Rng) -> Pos {
    loop {
        let mut p = Pos::start();
        let c = rng.below(2) as u8;
        let f = *rng.pick(&[0i8, 1, 2, 6, 7]);
        let (home, seventh, eighth) = if c == WHITE { (1, 6, 7) } else { (6, 1, 0) };
        p.sq[sq(f, home) as usize] = 0;
        p.sq[sq(f, seventh) as usize] = pc(c, P);
        if rng.chance(2, 3) {
            p.sq[sq(f, eighth) as usize] = 0;
        }
        // rights of a removed corner rook go with it
        if f == 0 || f == 7 {
            let bit = match (c, f) {
                (WHITE, 0) => BQ,
                (WHITE, _) => BK,
                (_, 0) => WQ,
                _ => WK,
            };
            if p.sq[sq(f, eighth) as usize] == 0 {
                p.castle &= !bit;
            }
        }
        p.stm = if rng.chance(2, 3) { c } else { c ^ 1 };
        if p.validity().is_ok() {
            return p;
        }
    }
}

/// A game played on ONE engine board mutated in place; after every ply the evaluation of that board
/// must equal the evaluation of the same position set up afresh from its FEN (the score depends on
/// the placement and the side to move, not on how the board object got there).
fn inplace_game(start: &Pos, plies: usize, rng: &mut Rng, st: &mut Stats) {
    use crate::board::Board;
    use crate::move_gen::MoveGenerator;
    let mg = MoveGenerator::new();
    let mut b = eng::board_from_pos(start);
    let mut cur = start.clone();
    let mut played: Vec<String> = vec![];
    for _ in 0..plies {
        let legal = cur.legal_moves();
        if legal.is_empty() {
            break;
        }
        let m = gen::pick_move(&cur, &legal, rng);
        let u = m.uci();
        let ok = engine_call(|| {
            let ms = mg.generate_moves(&b);
            match ms.iter().find(|x| x.to_algebraic() == u) {
                Some(em) => {
                    b.make_move(em);
                    true
                }
                None => false,
            }
        });
        if ok != Ok(true) {
            return; // C01/C02's concern
        }
        if m.promo != 0 {
            st.bump("inplace_promotions_played");
            if cur.piece_count() >= 28 {
                st.bump("inplace_promotions_played_with_28_or_more_men");
            }
        }
        cur = cur.make(&m);
        played.push(u);
        let afresh = Board::new(&cur.to_fen());
        st.bump("inplace_vs_fen_comparisons");
        st.case(hash64(&(cur.sq, cur.stm, 0x1au8)), true);
        match engine_call(|| (Evaluator::new().evaluate(&b), Evaluator::new().evaluate(&afresh))) {
            Ok((x, y)) => {
                if x != y {
                    st.violation(
                        format!("C14:inplace:{}", cur.placement_fen()),
                        format!("after playing {} from {} on one board, evaluate gives {} but the same position set up from its FEN ({}) evaluates to {}", played.join(" "), start.to_fen(), x, cur.to_fen(), y),
                        J::obj(vec![("kind", J::s("inplace")), ("start", J::s(start.to_fen())), ("moves", J::arr_s(played.clone()))]),
                    );
                    return;
                }
            }
            Err(msg) => {
                st.violation(format!("C14:panic:{}", cur.placement_fen()), format!("evaluate panicked on {}: {}", cur.to_fen(), msg), case_json(&cur));
                return;
            }
        }
    }
}

pub fn run(ctx: &Ctx) -> i32 {
    let spec = Spec {
        level: "exploration",
        rule: "cases are positions (games, corpus, synthetic, heavy-material positions with up to nine queens, studies); for each: evaluate on a long-lived evaluator vs a fresh one (purity, incl. A,B,A re-evaluation), negation when only the side to move is swapped (both positions valid), equality with the vertically mirrored colour-exchanged position, independence of rights/ep/counters, |score| < 30000; games (from the start position, the corpus, promotion races and near-full-material positions with a pawn on the seventh rank) are played on ONE board mutated in place and after every ply the evaluation of that board must equal that of the same position set up from its FEN. Distinct by (placement, side); non-trivial when more than the two kings are on the board",
        assumptions: vec!["the bound checked is 30000 (window +-32767); today's maximum is reported as max_abs_eval".into(), "rules oracle validated by perft at start (used only for validity of generated positions)".into()],
        required: if ctx.replay.is_some() { vec![] } else { vec!["purity_checks", "aba_checks", "side_swap_pairs", "mirror_pairs", "flags_ignored_pairs", "src_heavy", "inplace_vs_fen_comparisons", "inplace_promotions_played_with_28_or_more_men"] },
        exhaustive: false,
        extra: vec![],
    };
    if let Some(r) = ctx.replay.as_ref() {
        let mut st = Stats::new();
        let mut rng = Rng::new(ctx.seed, 1);
        let mut ev = Evaluator::new();
        let mut prev = vec![];
        if let Some(c) = r.get("case").filter(|c| c.str_of("kind") == "inplace") {
            // replay the recorded game move by move on one board
            if let Ok(start) = Pos::from_fen(&c.str_of("start")) {
                use crate::board::Board;
                use crate::move_gen::MoveGenerator;
                let mg = MoveGenerator::new();
                let mut b = eng::board_from_pos(&start);
                let mut cur = start.clone();
                for u in c.get("moves").and_then(|m| m.as_arr()).cloned().unwrap_or_default() {
                    let u = u.as_str().unwrap_or("").to_string();
                    let Some(m) = cur.find_uci(&u) else { break };
                    let ms = mg.generate_moves(&b);
                    let Some(em) = ms.iter().find(|x| x.to_algebraic() == u) else { break };
                    b.make_move(em);
                    cur = cur.make(&m);
                    st.case(hash64(&(cur.sq, cur.stm)), true);
                    let (x, y) = (Evaluator::new().evaluate(&b), Evaluator::new().evaluate(&Board::new(&cur.to_fen())));
                    if x != y {
                        st.violation("C14:inplace:replay", format!("board played in place evaluates to {}, the same position from FEN {} to {}", x, cur.to_fen(), y), c.clone());
                        break;
                    }
                }
            }
            return finalize(ctx, spec, st);
        }
        if let Some(c) = r.get("case") {
            for f in c.get("previous").and_then(|p| p.as_arr()).cloned().unwrap_or_default() {
                if let Ok(q) = Pos::from_fen(f.as_str().unwrap_or("")) {
                    check(&q, &mut ev, &mut prev, &mut st, &mut rng);
                }
            }
            if let Ok(p) = Pos::from_fen(&c.str_of("fen")) {
                check(&p, &mut ev, &mut prev, &mut st, &mut rng);
            }
        }
        return finalize(ctx, spec, st);
    }
    let per_worker = ctx.budget(10_000_000, 400_000_000) / ctx.workers as u64 + 1;
    let total = parallel(ctx.workers, |w| {
        let mut st = Stats::new();
        let mut rng = Rng::new(ctx.seed, 300 + w as u64);
        let mut ev = Evaluator::new();
        let mut prev = vec![];
        for i in (0..gen::CORPUS.len()).filter(|i| i % ctx.workers == w) {
            check(&gen::corpus_pos(i), &mut ev, &mut prev, &mut st, &mut rng);
        }
        // games played in place on one board vs the same positions set up from FEN
        let n_games = ctx.budget(1200, 40_000) / ctx.workers as u64 + 1;
        for g in 0..n_games {
            if g >= 4 && ctx.past(0.3) {
                break;
            }
            match g % 4 {
                0 => inplace_game(&Pos::start(), 100, &mut rng, &mut st),
                1 => inplace_game(&gen::corpus_pos(rng.below(gen::CORPUS.len() as u64) as usize), 40, &mut rng, &mut st),
                2 => inplace_game(&gen::g_explode(&mut rng), 16, &mut rng, &mut st),
                _ => inplace_game(&g_early_promotion(&mut rng), 24, &mut rng, &mut st),
            }
        }
        while st.evals < per_worker && !ctx.out_of_time() {
            let (tag, ps): (&str, Vec<Pos>) = match rng.below(10) {
                0 => ("src_game", gen::playout(&Pos::start(), &mut rng, 120).0),
                1 | 2 => ("src_corpus_game", gen::playout(&gen::corpus_pos(rng.below(64) as usize), &mut rng, 30).0),
                3 | 4 | 5 => ("src_synthetic", gen::playout(&gen::synth(&mut rng), &mut rng, 10).0),
                6 | 7 => ("src_heavy", gen::playout(&g_heavy(&mut rng), &mut rng, 6).0),
                8 => ("src_promotion_race", gen::playout(&gen::g_explode(&mut rng), &mut rng, 12).0),
                _ => ("src_small", vec![gen::g_small(&mut rng, 8)]),
            };
            for p in ps.iter() {
                st.bump(tag);
                st.sample_tagged(tag, || case_json(p));
                check(p, &mut ev, &mut prev, &mut st, &mut rng);
            }
        }
        st
    });
    finalize(ctx, spec, total)
}
