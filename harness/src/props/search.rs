//! C05 — pruning, ordering and caching never change the search value.
//! C08 — mate in one is played; avoidable mate in one is never allowed.
//!
//! C05: the real search (public API at depth 1..3, the fixed-depth hook at 4..5) is compared with a
//! pruning-free reference minimax whose leaves are the engine's own quiescence values; the returned
//! move must attain the value; every claim left in the transposition table is audited against the
//! reference; quiescence is checked for window consistency.
//! C08: rules-only oracle (set of mating moves, set of moves that allow a mate in one).
use crate::board::Board;
use crate::eng;
use crate::gen;
use crate::json::J;
use crate::oracle::{Mv, Pos, PosKey};
use crate::refsearch::{class, RefSearch, Skip, Val};
use crate::report::{engine_call, finalize, parallel, Ctx, Spec, Stats};
use crate::rng::{hash64, Rng};
use crate::search::Searcher;
use crate::transposition::Bounds;
use std::collections::HashMap;

fn case_json(p: &Pos, depth: u8, mode: &str, extra: Vec<(&str, J)>) -> J {
    let mut v = vec![("fen", J::s(p.to_fen())), ("depth", J::i(depth as i64)), ("mode", J::s(mode))];
    v.extend(extra);
    J::obj(v)
}

fn bump_skip(st: &mut Stats, s: &Skip) {
    match s {
        Skip::TooManyLeaves => st.bump("skipped_reference_tree_too_big"),
        Skip::QuiescenceTooBig => st.bump("skipped_quiescence_over_node_budget"),
    }
}

/// All positions of the tree below `p` down to `max_ply`, keyed by the hash the engine under test
/// gives them (so that table entries can be traced back to the positions they talk about).
fn hash_index(s: &Searcher, p: &Pos, max_ply: u8) -> HashMap<u64, (Pos, u8)> {
    let mut map: HashMap<u64, (Pos, u8)> = HashMap::new();
    let mut seen: HashMap<PosKey, u8> = HashMap::new();
    fn walk(s: &Searcher, p: &Pos, ply: u8, max_ply: u8, map: &mut HashMap<u64, (Pos, u8)>, seen: &mut HashMap<PosKey, u8>) {
        let k = p.key();
        if let Some(prev) = seen.get(&k) {
            if *prev <= ply {
                return;
            }
        }
        seen.insert(k, ply);
        let h = s.verif_hash(&Board::new(&p.to_fen()));
        map.insert(h, (p.clone(), ply));
        if ply < max_ply {
            for m in p.legal_moves() {
                walk(s, &p.make(&m), ply + 1, max_ply, map, seen);
            }
        }
    }
    walk(s, p, 0, max_ply, &mut map, &mut seen);
    map
}

/// Audit of every claim the search left in its table: (depth e, bound, eval) about position Q must
/// be true of the reference value V(Q, e).
fn audit_table(s: &Searcher, p: &Pos, depth: u8, rs: &mut RefSearch, st: &mut Stats, mode: &str, sig_prefix: &str) -> u64 {
    let entries = s.verif_tt_entries();
    if entries.is_empty() {
        return 0;
    }
    let index = hash_index(s, p, depth.saturating_sub(1));
    let mut bad = 0;
    for e in entries.iter() {
        st.bump("cached_claims_seen");
        let (q, ply) = match index.get(&e.hash_key) {
            Some(x) => x,
            None => {
                st.bump("cached_claims_not_traced_to_a_tree_position");
                continue;
            }
        };
        if e.depth as u32 + *ply as u32 > depth as u32 {
            // a depth the search cannot have reached from here: not a claim we can interpret
            st.bump("cached_claims_depth_beyond_tree");
            continue;
        }
        let v = match rs.value(q, e.depth) {
            Ok(v) => v,
            Err(sk) => {
                bump_skip(st, &sk);
                continue;
            }
        };
        let c = class(e.eval);
        let ok = match e.bounds {
            Bounds::Exact => v == c,
            Bounds::Lower => v >= c,
            Bounds::Upper => v <= c,
        };
        st.bump("cached_claims_audited");
        st.bump(match e.bounds {
            Bounds::Exact => "claims_exact",
            Bounds::Lower => "claims_lower",
            Bounds::Upper => "claims_upper",
        });
        if !ok {
            bad += 1;
            st.violation(
                format!("{}:false-cached-claim:{}:{}", sig_prefix, p.to_fen(), depth),
                format!(
                    "after searching {} to depth {} ({}) the table claims {:?} {} at depth {} for {} but the minimax value is {}",
                    p.to_fen(),
                    depth,
                    mode,
                    e.bounds,
                    e.eval,
                    e.depth,
                    q.to_fen(),
                    v.show()
                ),
                case_json(p, depth, mode, vec![("entry_position", J::s(q.to_fen())), ("entry_depth", J::i(e.depth as i64)), ("entry_eval", J::i(e.eval as i64)), ("entry_bound", J::s(format!("{:?}", e.bounds))), ("reference", J::s(v.show()))]),
            );
        }
    }
    bad
}

/// One C05 case. mode "id" = find_best_move (iterative deepening, public API), "fixed" = hook.
fn c05_case(p: &Pos, depth: u8, mode: &str, rs: &mut RefSearch, st: &mut Stats, audit: bool) {
    crate::report::note_case(&format!("search of {} to depth {} ({})", p.to_fen(), depth, mode));
    let b = eng::board_from_pos(p);
    let legal = p.legal_moves();
    if legal.is_empty() {
        return;
    }
    rs.reset();
    let want = match rs.value(p, depth) {
        Ok(v) => v,
        Err(sk) => {
            bump_skip(st, &sk);
            return;
        }
    };
    let mut s = Searcher::new();
    let fixed = mode == "fixed";
    // the engine under test gets a generous node cap so that a change that makes it run away is a
    // caught event rather than a hang (the reference for this position was finite and small)
    s.verif_timer().hard_cap = Some(200_000_000);
    let r = {
        let s = &mut s;
        engine_call(|| if fixed { s.verif_search_fixed(&b, depth) } else { s.find_best_move(&b, depth, None) })
    };
    let (score, mv) = match r {
        Ok(x) => x,
        Err(msg) => {
            st.case(hash64(&(p.key(), depth, fixed)), true);
            st.violation(
                format!("C05:panic:{}:{}", p.to_fen(), depth),
                format!("search of {} to depth {} ({}) panicked: {}", p.to_fen(), depth, mode, msg),
                case_json(p, depth, mode, vec![("panic", J::s(msg.clone()))]),
            );
            return;
        }
    };
    if fixed && s.verif.tt_returned_deeper > 0 {
        // outside the property's quantifier: a result cached by a deeper search was reused
        st.bump("excluded_deeper_cached_result_reused");
        return;
    }
    st.add("engine_nodes", s.verif_nodes());
    st.add("reference_leaves", rs.leaves);
    st.maxi("max_quiescence_nodes_at_a_leaf", rs.max_q_nodes);
    if s.verif.tt_returned_deeper > 0 {
        st.bump("id_runs_with_deeper_cached_result_returned");
    }
    if s.verif.tt_returned_same > 0 {
        st.bump("runs_with_same_depth_cached_result_returned");
    }
    st.bump(&format!("judged_depth_{}_{}", depth, mode));
    st.bump(match want {
        Val::Win => "reference_forced_win",
        Val::Loss => "reference_forced_loss",
        Val::Num(_) => "reference_numeric",
    });
    st.case(hash64(&(p.key(), depth, fixed)), legal.len() > 1);
    st.sample_tagged(&format!("{}{}", mode, depth), || {
        case_json(p, depth, mode, vec![("engine_score", J::i(score as i64)), ("reference", J::s(want.show())), ("engine_move", J::s(mv.map(|m| m.to_algebraic()).unwrap_or_default()))])
    });
    // which kinds of move attain the reference value (coverage of "the rare move is the only good one")
    {
        let mut best: Vec<&Mv> = vec![];
        for m in legal.iter() {
            if let Ok(v) = rs.move_value(p, m, depth) {
                if v == want {
                    best.push(m);
                }
            }
        }
        if !best.is_empty() && best.len() < legal.len() {
            use crate::oracle::MvKind;
            if best.iter().all(|m| m.promo != 0 && m.promo != crate::oracle::Q) {
                st.bump("value_attained_only_by_underpromotion");
            }
            if best.iter().all(|m| m.kind == MvKind::EnPassant) {
                st.bump("value_attained_only_by_en_passant");
            }
            if best.iter().all(|m| m.kind == MvKind::CastleK || m.kind == MvKind::CastleQ) {
                st.bump("value_attained_only_by_castling");
            }
            if best.len() == 1 {
                st.bump("value_attained_by_a_single_move");
            }
        }
    }
    // coverage probe: does the value rest on the stalemate rule applied to an interior node?
    if rs.stalemates_inside > 0 && depth >= 2 {
        st.bump("trees_with_a_stalemate_at_an_interior_node");
        rs.clear_interior();
        rs.stalemate_as_loss = true;
        let alt = rs.value(p, depth);
        rs.stalemate_as_loss = false;
        rs.clear_interior();
        if let Ok(alt) = alt {
            if alt != want {
                st.bump("value_rests_on_the_stalemate_rule_at_an_interior_node");
                if want == Val::Num(0) {
                    st.bump("value_is_a_draw_saved_by_stalemate_inside_the_tree");
                }
            }
        }
    }
    let got = class(score);
    if got != want {
        st.violation(
            format!("C05:value:{}:{}:{}", p.to_fen(), depth, mode),
            format!("search of {} to depth {} ({}) reports {} but the minimax value is {}", p.to_fen(), depth, mode, score, want.show()),
            case_json(p, depth, mode, vec![("engine_score", J::i(score as i64)), ("reference", J::s(want.show()))]),
        );
    }
    match mv.map(|m| m.to_algebraic()) {
        None => st.violation(
            format!("C05:nomove:{}:{}:{}", p.to_fen(), depth, mode),
            format!("search of {} to depth {} ({}) returned no move although {} are legal", p.to_fen(), depth, mode, legal.len()),
            case_json(p, depth, mode, vec![]),
        ),
        Some(u) => match legal.iter().find(|m| m.uci() == u) {
            None => st.violation(
                format!("C05:illegal:{}:{}:{}", p.to_fen(), depth, mode),
                format!("search of {} to depth {} ({}) returned {} which is not legal", p.to_fen(), depth, mode, u),
                case_json(p, depth, mode, vec![("engine_move", J::s(u.clone()))]),
            ),
            Some(m) => match rs.move_value(p, m, depth) {
                Ok(v) => {
                    if v != want {
                        st.violation(
                            format!("C05:move:{}:{}:{}", p.to_fen(), depth, mode),
                            format!(
                                "search of {} to depth {} ({}) returned {} whose minimax value is {} while the position's value is {}",
                                p.to_fen(),
                                depth,
                                mode,
                                u,
                                v.show(),
                                want.show()
                            ),
                            case_json(p, depth, mode, vec![("engine_move", J::s(u.clone())), ("move_value", J::s(v.show())), ("reference", J::s(want.show()))]),
                        );
                    }
                }
                Err(sk) => bump_skip(st, &sk),
            },
        },
    }
    if audit {
        audit_table(&s, p, depth, rs, st, mode, "C05");
    }
}

/// Quiescence window consistency on one position: r = q(P, a, b) must be explained by q_full.
fn c05_qwindow(p: &Pos, rng: &mut Rng, s: &mut Searcher, st: &mut Stats) {
    let b = eng::board_from_pos(p);
    let (lo, hi) = Searcher::verif_window();
    let cap = |s: &mut Searcher| {
        let n = s.verif_nodes();
        s.verif_timer().hard_cap = Some(n + 50_000);
    };
    cap(s);
    let full = match engine_call(|| s.verif_quiesce(&b, lo, hi)) {
        Ok(v) => v,
        Err(_) => {
            st.bump("skipped_quiescence_over_node_budget");
            *s = Searcher::new();
            return;
        }
    };
    for _ in 0..4 {
        let centre = if full > lo && full < hi { full } else { 0 };
        let a = (centre as i64 + rng.range(-400, 400)).clamp(lo as i64, hi as i64 - 1) as i32;
        let bb = (a as i64 + rng.range(1, 600)).clamp(a as i64 + 1, hi as i64) as i32;
        cap(s);
        let r = match engine_call(|| s.verif_quiesce(&b, a, bb)) {
            Ok(v) => v,
            Err(_) => {
                *s = Searcher::new();
                return;
            }
        };
        st.bump("quiescence_windows_checked");
        let ok = if r > a && r < bb {
            st.bump("quiescence_window_inside");
            r == full
        } else if r <= a {
            st.bump("quiescence_window_fail_low");
            full <= r.max(a)
        } else {
            st.bump("quiescence_window_fail_high");
            full >= r.min(bb)
        };
        if !ok {
            st.violation(
                format!("C05:qwindow:{}", p.to_fen()),
                format!("quiescence of {} on window ({}, {}) returns {} but on the full window it returns {}", p.to_fen(), a, bb, r, full),
                J::obj(vec![("fen", J::s(p.to_fen())), ("mode", J::s("qwindow")), ("alpha", J::i(a as i64)), ("beta", J::i(bb as i64)), ("result", J::i(r as i64)), ("full", J::i(full as i64))]),
            );
        }
    }
}

fn c05_position(rng: &mut Rng, i: u64) -> Pos {
    if i % 11 == 10 {
        return gen::g_stalemate_swindle(rng);
    }
    match i % 14 {
        0 | 1 | 2 | 3 => gen::g_game_pos(rng),
        4 => gen::corpus_pos(rng.below(gen::CORPUS.len() as u64) as usize),
        5 | 6 => gen::g_small(rng, 8),
        7 => {
            if rng.chance(1, 4) {
                gen::synth(rng)
            } else {
                // batteries: discovered checks / mates near the horizon
                if rng.chance(1, 2) {
                    return gen::g_battery_loaded(rng);
                }
                let p = gen::g_battery(rng);
                let (ps, _) = gen::playout(&p, rng, 2);
                ps[rng.below(ps.len() as u64) as usize].clone()
            }
        }
        8 => gen::g_promo(rng),
        9 | 10 => gen::g_underpromo(rng),
        11 => {
            if rng.chance(1, 2) {
                gen::g_ep(rng)
            } else {
                // the position before a double step that mates or stalemates although an en-passant capture
                // of the pawn is pseudo-legal
                gen::g_ep_terminal(rng).map(|x| x.0).unwrap_or_else(|| gen::g_ep(rng))
            }
        }
        12 => gen::g_castle(rng),
        _ => {
            // late game: long playout
            let n = rng.range(60, 160) as usize;
            let (ps, _) = gen::playout(&Pos::start(), rng, n);
            ps.last().unwrap().clone()
        }
    }
}

/// Positions in which an under-promotion, an en-passant capture or castling is the only move that
/// attains the value (stalemate traps, knight forks, mating castles).
const STUDIES: &[&str] = &[
    "8/k1P5/2K5/8/8/8/8/8 w - - 0 1",
    "8/8/8/8/8/2k5/K1p5/8 b - - 0 1",
    "5k2/5P1P/5K2/8/8/8/8/8 w - - 0 1",
    "8/5P1k/5K2/8/8/8/8/8 w - - 0 1",
    "6k1/4P3/6K1/8/8/8/8/8 w - - 0 1",
    "8/8/8/8/8/6k1/4p3/6K1 b - - 0 1",
    "2q5/1P3k2/8/8/8/8/8/K7 w - - 0 1",
    "8/8/8/2k5/3Pp3/8/8/4K3 b - d3 0 1",
    "k7/8/8/3pP3/8/8/8/K6b w - d6 0 1",
    "r3k3/8/8/8/8/8/8/3K1R2 b q - 0 1",
    "5rk1/8/8/8/8/8/8/R3K3 w Q - 0 1",
    // stalemate swindles: the side behind gives its last mobile piece away and is stalemated
    "7k/7p/8/8/8/8/2q5/K5R1 w - - 0 1",
    "k7/P7/K7/8/8/8/8/6r1 b - - 0 1",
    "7k/5K2/6Q1/8/8/8/8/6r1 b - - 0 1",
];

/// Black-box part of C05: the value the USER sees. A fresh process of the release binary (hooks off) is given
/// `position fen P` and `go depth d` (d = 1..3); every `info depth k score cp X [pv m ...]` line it prints
/// must carry the class of the reference value V(P, k), its first pv move (when printed) must attain V(P, k),
/// and the bestmove must attain V(P, d). This covers what the in-process part cannot: go-parameter parsing,
/// the printing path, release-build arithmetic.
fn c05_blackbox(ctx: &Ctx) -> Stats {
    use crate::bb;
    use std::time::Duration;
    let n = ctx.budget(96, 1600);
    let workers = ctx.workers.min(8);
    parallel(workers, |w| {
        let mut st = Stats::new();
        let mut rng = Rng::new(ctx.seed, 5600 + w as u64);
        let mut rs = RefSearch::new(if ctx.quick() { 400_000 } else { 3_000_000 }, 20_000);
        for k in 0..(n / workers as u64 + 1) {
            if k >= 3 && ctx.past(0.97) {
                break;
            }
            let p = match k % 5 {
                0 => gen::g_battery_loaded(&mut rng),
                1 => gen::g_underpromo(&mut rng),
                2 => gen::g_small(&mut rng, 8),
                _ => gen::g_game_pos(&mut rng),
            };
            let legal = p.legal_moves();
            if legal.len() < 2 {
                continue;
            }
            let d = 1 + rng.below(3) as u8;
            rs.reset();
            let mut vals = vec![];
            let mut ok = true;
            for kk in 1..=d {
                match rs.value(&p, kk) {
                    Ok(v) => vals.push(v),
                    Err(sk) => {
                        bump_skip(&mut st, &sk);
                        ok = false;
                        break;
                    }
                }
            }
            if !ok {
                continue;
            }
            let mut e = match bb::Engine::spawn(&ctx.engine_bin) {
                Ok(e) => e,
                Err(m) => {
                    st.inconclusive.push(format!("cannot start the engine binary: {}", m));
                    return st;
                }
            };
            let script = vec![format!("position fen {}", p.to_fen()), format!("go depth {}", d)];
            let case = J::obj(vec![("kind", J::s("blackbox")), ("fen", J::s(p.to_fen())), ("depth", J::i(d as i64)), ("commands", J::arr_s(script.clone()))]);
            let _ = e.send(&script[0]);
            let lines = match e.command(&script[1], Duration::from_secs(120)) {
                Ok(l) => l,
                Err(_) => {
                    st.bump("blackbox_go_failed");
                    continue; // C03 judges missing answers
                }
            };
            e.quit();
            st.case(hash64(&(p.key(), d, 0xbbu8)), true);
            st.bump("blackbox_searches_judged");
            st.sample_tagged("blackbox", || case.clone());
            for l in lines.iter() {
                let t: Vec<&str> = l.split_whitespace().collect();
                if t.first() != Some(&"info") {
                    continue;
                }
                let kk = t.iter().position(|x| *x == "depth").and_then(|i| t.get(i + 1)).and_then(|x| x.parse::<u8>().ok());
                let sc = t.iter().position(|x| *x == "cp").and_then(|i| t.get(i + 1)).and_then(|x| x.parse::<i64>().ok());
                let pv = t.iter().position(|x| *x == "pv").and_then(|i| t.get(i + 1)).map(|x| x.to_string());
                let (Some(kk), Some(sc)) = (kk, sc) else { continue };
                if kk < 1 || kk > d {
                    continue;
                }
                st.bump("blackbox_info_lines_judged");
                let want = vals[kk as usize - 1];
                let got = class(sc.clamp(i32::MIN as i64, i32::MAX as i64) as i32);
                if got != want {
                    st.violation(
                        format!("C05:blackbox-value:{}:{}", p.to_fen(), kk),
                        format!("fresh process, 'position fen {}' 'go depth {}': it prints '{}' but the minimax value at depth {} is {}", p.to_fen(), d, l, kk, want.show()),
                        case.clone(),
                    );
                    break;
                }
                if let Some(m) = pv.and_then(|u| legal.iter().find(|x| x.uci() == u).cloned()) {
                    if let Ok(v) = rs.move_value(&p, &m, kk) {
                        if v != want {
                            st.violation(
                                format!("C05:blackbox-pv:{}:{}", p.to_fen(), kk),
                                format!("fresh process, 'position fen {}' 'go depth {}': it prints '{}' but {} has minimax value {} at depth {} while the position's is {}", p.to_fen(), d, l, m.uci(), v.show(), kk, want.show()),
                                case.clone(),
                            );
                            break;
                        }
                    }
                }
            }
            let ans = lines.iter().find(|l| l.starts_with("bestmove")).and_then(|l| l.split_whitespace().nth(1)).unwrap_or("").to_string();
            if let Some(m) = legal.iter().find(|x| x.uci() == ans) {
                if let Ok(v) = rs.move_value(&p, m, d) {
                    if v != vals[d as usize - 1] {
                        st.violation(
                            format!("C05:blackbox-bestmove:{}:{}", p.to_fen(), d),
                            format!("fresh process, 'position fen {}' 'go depth {}': bestmove {} has minimax value {} while the position's is {}", p.to_fen(), d, ans, v.show(), vals[d as usize - 1].show()),
                            case.clone(),
                        );
                    }
                }
            }
            // an illegal or missing bestmove is C03's finding
        }
        st
    })
}

pub fn run_c05(ctx: &Ctx) -> i32 {
    let spec = Spec {
        level: "exploration",
        rule: "a case is (position, depth, mode): mode 'id' = find_best_move on a fresh engine at depth 1..3 (public API, every run judged), mode 'fixed' = one fixed-depth search at depth 4..5 on a fresh engine (runs in which a result cached by a deeper search was returned are excluded and counted). The score class must equal the reference minimax value (leaves = the engine's own full-window quiescence), the returned move must attain it, every entry left in the transposition table must be a true claim about the reference value of the position it belongs to, and quiescence must be window-consistent. Black-box part: a fresh process of the release binary is given 'position fen P', 'go depth d' (d = 1..3); every 'info depth k score cp X pv m' line must carry the class of V(P, k) and a first pv move attaining it, and the bestmove must attain V(P, d). Positions: game positions of all phases, corpus, few-men positions, synthetic and promotion studies, stalemate swindles (a cornered king plus one piece to give away), batteries (a slider aimed at a king through one piece of its own side; 'loaded' ones in which one ply above the horizon a material-winning capture and a quiet discovered-check mate are both available); positions whose reference tree or quiescence exceeds the node budget are skipped and counted. Distinct by (position, depth, mode); non-trivial when the position has more than one legal move",
        assumptions: vec![
            "the reference rules implementation is correct (perft self-test at every run)".into(),
            "leaves are scored by the engine's own quiescence search on a full window (as the property defines the reference); that search is not itself compared with anything except for window consistency".into(),
            "depths above 5 and non-fresh engines are outside this check".into(),
        ],
        required: if ctx.replay.is_some() { vec![] } else { vec!["judged_depth_1_id", "judged_depth_2_id", "judged_depth_3_id", "judged_depth_4_fixed", "cached_claims_audited", "claims_exact", "claims_lower", "claims_upper", "quiescence_windows_checked", "runs_with_same_depth_cached_result_returned", "value_attained_only_by_underpromotion", "value_attained_by_a_single_move", "depth_4_fixed_on_positions_with_many_men", "value_rests_on_the_stalemate_rule_at_an_interior_node", "value_is_a_draw_saved_by_stalemate_inside_the_tree", "loaded_battery_cases_judged", "blackbox_searches_judged", "blackbox_info_lines_judged"] },
        exhaustive: false,
        extra: vec![],
    };
    if let Some(r) = ctx.replay.as_ref() {
        let mut st = Stats::new();
        if let Some(c) = r.get("case") {
            if let Ok(p) = Pos::from_fen(&c.str_of("fen")) {
                if c.str_of("mode") == "qwindow" {
                    let mut s = Searcher::new();
                    let b = eng::board_from_pos(&p);
                    let (lo, hi) = Searcher::verif_window();
                    let (a, bb) = (c.int_of("alpha") as i32, c.int_of("beta") as i32);
                    st.case(1, true);
                    if let (Ok(full), Ok(r)) = (engine_call(|| s.verif_quiesce(&b, lo, hi)), engine_call(|| Searcher::new().verif_quiesce(&b, a, bb))) {
                        let ok = if r > a && r < bb { r == full } else if r <= a { full <= r.max(a) } else { full >= r.min(bb) };
                        if !ok {
                            st.violation("C05:qwindow:replay", format!("window ({},{}) gives {}, full window gives {}", a, bb, r, full), c.clone());
                        }
                    }
                } else {
                    let mut rs = RefSearch::new(50_000_000, 5_000_000);
                    c05_case(&p, c.int_of("depth") as u8, &c.str_of("mode"), &mut rs, &mut st, true);
                }
            } else {
                st.inconclusive.push("replay: bad fen".into());
            }
        }
        return finalize(ctx, spec, st);
    }
    let n_id = ctx.budget(1100, 24_000);
    let n_fixed = ctx.budget(160, 2400);
    let n_qw = ctx.budget(3000, 60_000);
    let total = parallel(ctx.workers, |w| {
        let mut st = Stats::new();
        let mut rng = Rng::new(ctx.seed, 5000 + w as u64);
        let mut rs = RefSearch::new(if ctx.quick() { 400_000 } else { 3_000_000 }, 20_000);
        let share = |n: u64| n / ctx.workers as u64 + 1;
        // corpus positions first, at every depth 1..3 (same cases for every seed)
        for i in 0..gen::CORPUS.len() {
            if i % ctx.workers == w {
                let p = gen::corpus_pos(i);
                let d = 1 + (i / ctx.workers % 3) as u8;
                c05_case(&p, d, "id", &mut rs, &mut st, true);
            }
        }
        // studies in which a rare move is the only good one, at every depth 1..3
        for (i, fen) in STUDIES.iter().enumerate() {
            if i % ctx.workers == w {
                let p = Pos::from_fen(fen).expect("study fen");
                for d in 1..=3u8 {
                    c05_case(&p, d, "id", &mut rs, &mut st, true);
                }
            }
        }
        let mut i = 0u64;
        let target = share(n_id);
        let mut judged = 0;
        while judged < target && !ctx.past(0.4) {
            let p = c05_position(&mut rng, i);
            i += 1;
            let d = 1 + rng.below(3) as u8;
            let before = st.evals;
            c05_case(&p, d, "id", &mut rs, &mut st, true);
            if st.evals > before {
                judged += 1;
            }
            if i > target * 20 {
                break;
            }
        }
        // loaded batteries (weak side to move; after one of its moves the strong side has a capture of a
        // piece AND a quiet discovered-check mate): the node one ply above the horizon has to find the mate
        // after a material gain has already raised alpha — searched so that this node sits at remaining
        // depth 1 (root depth 2) or 2 (root depth 3)
        let target = share(n_id / 6);
        let mut done = 0;
        while done < target && (done < 2 || !ctx.past(0.5)) {
            let p = gen::g_battery_loaded(&mut rng);
            let d = if rng.chance(2, 3) { 2 } else { 3 };
            let before = st.evals;
            c05_case(&p, d, "id", &mut rs, &mut st, true);
            if st.evals > before {
                st.bump("loaded_battery_cases_judged");
            }
            done += 1;
        }
        if w == 0 {
            say!("C05 worker 0: depth 1..3 part done at {:.1}s", ctx.start.elapsed().as_secs_f64());
        }
        // depth 4..5 single fixed-depth searches on few-men positions
        let target = share(n_fixed);
        let mut tried = 0;
        while tried < target && (tried < 2 || !ctx.past(0.6)) {
            let men = if rng.chance(1, 2) { 6 } else { 8 };
            let p = gen::g_small(&mut rng, men);
            let d = if ctx.quick() || rng.chance(3, 4) { 4 } else { 5 };
            c05_case(&p, d, "fixed", &mut rs, &mut st, d == 4 && rng.chance(1, 3));
            tried += 1;
        }
        if w == 0 {
            say!("C05 worker 0: few-men depth 4..5 part done at {:.1}s", ctx.start.elapsed().as_secs_f64());
        }
        // depth 4 single fixed-depth searches on full-board middlegames and late-game positions
        // (pruning that only switches on with many men or at depth >= 4 shows here); the reference
        // gets a larger budget for these few cases
        let mut rs_big = RefSearch::new(if ctx.quick() { 1_500_000 } else { 6_000_000 }, 20_000);
        let target = ctx.budget(24, 400) / ctx.workers as u64 + 1;
        let mut tried = 0;
        let mut attempts = 0;
        while tried < target && attempts < target * 6 && (tried < 1 || !ctx.past(0.72)) {
            attempts += 1;
            let p = if rng.chance(1, 2) {
                gen::g_game_pos(&mut rng)
            } else {
                let n = rng.range(50, 140) as usize;
                gen::playout(&Pos::start(), &mut rng, n).0.last().unwrap().clone()
            };
            let nl = p.legal_moves().len();
            if nl < 2 || nl > 28 {
                continue;
            }
            let before = st.count("judged_depth_4_fixed") + st.count("excluded_deeper_cached_result_reused");
            c05_case(&p, 4, "fixed", &mut rs_big, &mut st, false);
            if st.count("judged_depth_4_fixed") + st.count("excluded_deeper_cached_result_reused") > before {
                st.bump("depth_4_fixed_on_positions_with_many_men");
                st.maxi("max_men_in_a_depth_4_case", p.piece_count() as u64);
            }
            tried += 1;
        }
        if w == 0 {
            say!("C05 worker 0: many-men depth 4 part done at {:.1}s", ctx.start.elapsed().as_secs_f64());
        }
        // quiescence window consistency
        let mut s = Searcher::new();
        for k in 0..share(n_qw) {
            if k >= 8 && ctx.past(0.8) {
                break;
            }
            let p = match k % 4 {
                0 => gen::g_game_pos(&mut rng),
                1 => gen::synth(&mut rng),
                2 => gen::g_promo(&mut rng),
                _ => gen::g_small(&mut rng, 10),
            };
            c05_qwindow(&p, &mut rng, &mut s, &mut st);
        }
        st
    });
    let mut total = total;
    if std::env::var("VERIF_NO_BLACKBOX").is_err() {
        total.merge(c05_blackbox(ctx));
    }
    finalize(ctx, spec, total)
}

// ------------------------------------------------------------------------------------------ C08

use crate::gen::quiet_discovered_check;

fn mates_in_one(p: &Pos, legal: &[Mv]) -> Vec<Mv> {
    legal
        .iter()
        .filter(|m| {
            let n = p.make(m);
            n.in_check() && n.legal_moves().is_empty()
        })
        .cloned()
        .collect()
}


/// Material class of a position, for the coverage counters of C08.
fn c08_material_tags(p: &Pos) -> Vec<&'static str> {
    use crate::oracle::{kind, B, N, P, Q, R};
    let mut heavy = 0;
    let mut minors = 0;
    for s in 0..64 {
        match kind(p.sq[s]) {
            k if k == P || k == R || k == Q => heavy += 1,
            k if k == N || k == B => minors += 1,
            _ => {}
        }
    }
    let mut t = vec![];
    if heavy == 0 && minors > 0 {
        t.push("minor_pieces_only");
    }
    if heavy + minors <= 3 {
        t.push("at_most_5_men");
    }
    if heavy == 0 && minors == 2 {
        let w = (0..64).filter(|&s| (kind(p.sq[s]) == N || kind(p.sq[s]) == B) && crate::oracle::color(p.sq[s]) == 0).count();
        if w == 1 {
            t.push("one_minor_piece_each");
        }
    }
    t
}

/// Node budget of one C08 search. A search that needs more (a handful of synthetic many-queen positions at
/// depth 3) is skipped and counted, never judged: C08 is about which move is answered, not about how long
/// the answer takes, and one such straggler would otherwise hold the whole run for minutes.
const C08_NODE_CAP: u64 = 25_000_000;
const C08_WALL_S: u64 = 6;

fn c08_search(p: &Pos, depth: u8, st: &mut Stats) -> Result<Option<String>, String> {
    crate::report::note_case(&format!("search of {} to depth {}", p.to_fen(), depth));
    let b = eng::board_from_pos(p);
    let t0 = std::time::Instant::now();
    let r = engine_call(|| {
        let mut s = Searcher::new();
        s.verif_timer().hard_cap = Some(C08_NODE_CAP);
        // the engine's own clock bounds the wall time of one case (positions with a dozen queens run at a
        // tenth of the usual node rate); a search that ran into it did not complete and is skipped
        let a = s.find_best_move(&b, depth, Some(std::time::Duration::from_secs(C08_WALL_S))).1.map(|m| m.to_algebraic());
        (a, s.verif_nodes())
    });
    // measured from before the engine was built, so "less than the limit" proves the search's own clock
    // (started later) had not run out
    let el = t0.elapsed();
    let r = r.map(|(a, n)| (a, n, el.as_secs() >= C08_WALL_S));
    st.maxi("max_search_ms", el.as_millis() as u64);
    match r {
        Ok((_, _, true)) => Err("hard node cap (wall-clock form): the search did not complete within its time budget".into()),
        Ok((a, nodes, false)) => {
            st.maxi("max_search_nodes", nodes);
            Ok(a)
        }
        Err(m) => Err(m),
    }
}

/// true when the panic message is the harness's own node cap (the search was skipped, not judged)
fn c08_capped(msg: &str, st: &mut Stats) -> bool {
    if msg.contains("hard node cap") {
        st.bump("searches_skipped_over_their_node_or_time_budget");
        true
    } else {
        false
    }
}

/// Returns true when the position gave rise to at least one trial.
fn c08_position(p_in: &Pos, rng: &mut Rng, st: &mut Stats, only_depth: Option<u8>, max_men_for_depth4: usize) -> bool {
    // the move counters of the FEN are part of the input: vary them (a checkmate stands whatever
    // the halfmove clock says, and a move that allows mate in one is a blunder at any clock)
    let mut pp = p_in.clone();
    if only_depth.is_none() && rng.chance(1, 2) {
        pp.half = *rng.pick(&[0u32, 1, 50, 90, 97, 98, 99]);
        pp.full = pp.half / 2 + *rng.pick(&[1u32, 20, 200]);
        st.bump("positions_examined_with_hostile_move_counters");
    }
    let p = &pp;
    let legal = p.legal_moves();
    if legal.len() < 2 {
        return false;
    }
    let m1 = mates_in_one(p, &legal);
    if !m1.is_empty() {
        // (a) a mate in one exists: any depth 1..4 must play one
        let mut depths: Vec<u8> = vec![1, 2, 3];
        if p.piece_count() <= max_men_for_depth4 {
            depths.push(4);
        }
        let d = only_depth.unwrap_or_else(|| *rng.pick(&depths));
        let mates: Vec<String> = m1.iter().map(|m| m.uci()).collect();
        st.case(hash64(&(p.key(), d, 0u8)), m1.len() < legal.len());
        st.bump(&format!("mate_in_one_trials_depth_{}", d));
        for t in c08_material_tags(p) {
            st.bump(&format!("mate_in_one_trials_{}", t));
        }
        if m1.iter().any(|m| m.kind == crate::oracle::MvKind::Double && p.make(m).ep != crate::oracle::NO_EP) {
            st.bump("mate_in_one_trials_where_a_mating_move_is_a_double_step_next_to_an_enemy_pawn");
        }
        if m1.iter().any(|m| quiet_discovered_check(p, m)) {
            st.bump("mate_in_one_trials_where_a_mating_move_is_a_quiet_discovered_check");
        }
        for m in m1.iter() {
            use crate::oracle::{MvKind, Q};
            if m.promo != 0 && m.promo != Q {
                st.bump("mating_move_is_an_underpromotion");
            } else if m.promo == Q {
                st.bump("mating_move_is_a_queen_promotion");
            }
            match m.kind {
                MvKind::EnPassant => st.bump("mating_move_is_en_passant"),
                MvKind::CastleK | MvKind::CastleQ => st.bump("mating_move_is_castling"),
                _ => {}
            }
        }
        st.sample_tagged("mate_in_one", || J::obj(vec![("fen", J::s(p.to_fen())), ("depth", J::i(d as i64)), ("kind", J::s("mate_in_one")), ("mating_moves", J::arr_s(mates.clone()))]));
        match c08_search(p, d, st) {
            Err(msg) if c08_capped(&msg, st) => {}
            Err(msg) => st.violation(format!("C08:panic:{}:{}", p.to_fen(), d), format!("search of {} to depth {} panicked: {}", p.to_fen(), d, msg), J::obj(vec![("fen", J::s(p.to_fen())), ("depth", J::i(d as i64))])),
            Ok(ans) => {
                let a = ans.unwrap_or_else(|| "none".into());
                if !mates.contains(&a) {
                    st.violation(
                        format!("C08:missed-mate:{}:{}", p.to_fen(), d),
                        format!("{} at depth {}: mate in one available ({}) but the engine answers {}", p.to_fen(), d, mates.join(" "), a),
                        J::obj(vec![("fen", J::s(p.to_fen())), ("depth", J::i(d as i64)), ("kind", J::s("mate_in_one")), ("answer", J::s(a.clone())), ("mating_moves", J::arr_s(mates.clone()))]),
                    );
                }
            }
        }
        return true;
    }
    // (b) no mate in one for us: which of our moves allow one for the opponent?
    let blunders: Vec<String> = legal
        .iter()
        .filter(|m| {
            let n = p.make(m);
            let nl = n.legal_moves();
            !mates_in_one(&n, &nl).is_empty()
        })
        .map(|m| m.uci())
        .collect();
    if blunders.is_empty() || blunders.len() == legal.len() {
        return false;
    }
    let d = only_depth.unwrap_or_else(|| 2 + rng.below(2) as u8);
    if d < 2 || d > 3 {
        return false;
    }
    if legal.iter().any(|m| {
        let n = p.make(m);
        let nl = n.legal_moves();
        mates_in_one(&n, &nl).iter().any(|r| quiet_discovered_check(&n, r))
    }) {
        st.bump("avoidable_mate_trials_where_a_threatened_mate_is_a_quiet_discovered_check");
    }
    st.case(hash64(&(p.key(), d, 1u8)), true);
    st.bump(&format!("avoidable_mate_trials_depth_{}", d));
    for t in c08_material_tags(p) {
        st.bump(&format!("avoidable_mate_trials_{}", t));
    }
    st.sample_tagged("avoidable_mate", || J::obj(vec![("fen", J::s(p.to_fen())), ("depth", J::i(d as i64)), ("kind", J::s("avoidable_mate")), ("moves_allowing_mate_in_one", J::arr_s(blunders.clone())), ("legal_moves", J::i(legal.len() as i64))]));
    // the same question to a fresh engine that has been GIVEN THE GAME SO FAR, a game in which the blunder was
    // already played once (the opponent missed the mate) and both sides went back: the position after the
    // blunder stands on record once, which is no draw — the engine must still avoid it
    if only_depth.is_none() && rng.chance(1, 3) {
        c08_with_game_record(p, &legal, &blunders, d, rng, st);
    }
    match c08_search(p, d, st) {
        Err(msg) if c08_capped(&msg, st) => {}
        Err(msg) => st.violation(format!("C08:panic:{}:{}", p.to_fen(), d), format!("search of {} to depth {} panicked: {}", p.to_fen(), d, msg), J::obj(vec![("fen", J::s(p.to_fen())), ("depth", J::i(d as i64))])),
        Ok(ans) => {
            let a = ans.unwrap_or_else(|| "none".into());
            if blunders.contains(&a) || !legal.iter().any(|m| m.uci() == a) {
                st.violation(
                    format!("C08:allowed-mate:{}:{}", p.to_fen(), d),
                    format!("{} at depth {}: the engine answers {} which allows mate in one (or is not legal); {} of {} legal moves avoid it", p.to_fen(), d, a, legal.len() - blunders.len(), legal.len()),
                    J::obj(vec![("fen", J::s(p.to_fen())), ("depth", J::i(d as i64)), ("kind", J::s("avoidable_mate")), ("answer", J::s(a.clone())), ("moves_allowing_mate_in_one", J::arr_s(blunders.clone()))]),
                );
            }
        }
    }
    true
}

/// (b) with a game record: p, blunder m, a quiet reversible reply y that is not the mate, m back, y back —
/// the engine is given 'position fen p moves m y m' y'' (so p stands for the second time and p.m stood once)
/// and must not answer a move that allows mate in one. Blunders whose position would stand for the THIRD
/// time are not counted as blunders (that is a draw by repetition), which cannot happen in this construction
/// but is checked all the same.
fn c08_with_game_record(p: &Pos, legal: &[Mv], blunders: &[String], d: u8, rng: &mut Rng, st: &mut Stats) {
    use crate::oracle::{kind, MvKind, P};
    let quiet = |q: &Pos| -> Vec<Mv> { q.legal_moves().into_iter().filter(|m| m.kind == MvKind::Normal && m.promo == 0 && !q.is_capture(m) && kind(q.sq[m.from as usize]) != P).collect() };
    let cands: Vec<Mv> = quiet(p).into_iter().filter(|m| blunders.contains(&m.uci())).collect();
    if cands.is_empty() {
        return;
    }
    for _ in 0..6 {
        let m = *rng.pick(&cands);
        let p1 = p.make(&m);
        let l1 = p1.legal_moves();
        let mates: Vec<String> = mates_in_one(&p1, &l1).iter().map(|x| x.uci()).collect();
        let ys: Vec<Mv> = quiet(&p1).into_iter().filter(|y| !mates.contains(&y.uci())).collect();
        if ys.is_empty() {
            continue;
        }
        let y = *rng.pick(&ys);
        let p2 = p1.make(&y);
        let Some(mb) = p2.legal_moves().into_iter().find(|x| x.from == m.to && x.to == m.from && x.kind == MvKind::Normal && x.promo == 0) else { continue };
        let p3 = p2.make(&mb);
        let Some(yb) = p3.legal_moves().into_iter().find(|x| x.from == y.to && x.to == y.from && x.kind == MvKind::Normal && x.promo == 0) else { continue };
        let p4 = p3.make(&yb);
        if p4.key() != p.key() {
            continue;
        }
        let cmd = format!("position fen {} moves {} {} {} {}", p.to_fen(), m.uci(), y.uci(), mb.uci(), yb.uci());
        crate::report::note_case(&format!("{} ; search to depth {}", cmd, d));
        let t0 = std::time::Instant::now();
        let r = engine_call(|| {
            let mut e = crate::uci::Flounder::new();
            e.verif_handle_command(&cmd);
            let b = *e.verif_board();
            let s = e.verif_searcher();
            s.verif_timer().hard_cap = Some(C08_NODE_CAP);
            s.find_best_move(&b, d, Some(std::time::Duration::from_secs(C08_WALL_S))).1.map(|x| x.to_algebraic())
        });
        if t0.elapsed().as_secs() >= C08_WALL_S {
            st.bump("searches_skipped_over_their_node_or_time_budget");
            return;
        }
        st.bump("avoidable_mate_trials_given_a_game_in_which_the_blunder_was_already_played_once");
        let case = J::obj(vec![("fen", J::s(p.to_fen())), ("depth", J::i(d as i64)), ("kind", J::s("avoidable_mate_with_game_record")), ("position_command", J::s(cmd.clone()))]);
        match r {
            Err(msg) if c08_capped(&msg, st) => {}
            Err(msg) => st.violation(format!("C08:panic:{}:{}", cmd, d), format!("search after '{}' to depth {} panicked: {}", cmd, d, msg), case),
            Ok(ans) => {
                let a = ans.unwrap_or_else(|| "none".into());
                if blunders.contains(&a) || !legal.iter().any(|x| x.uci() == a) {
                    st.violation(
                        format!("C08:allowed-mate-with-game-record:{}:{}", cmd, d),
                        format!("after '{}' (the position stands for the second time, the one after {} stood once) at depth {}: the engine answers {} which allows mate in one; {} of {} legal moves avoid it", cmd, m.uci(), d, a, legal.len() - blunders.len(), legal.len()),
                        case,
                    );
                }
            }
        }
        return;
    }
}

/// Positions rich in mating threats: a lone-ish king against heavy pieces.
fn g_mating(rng: &mut Rng) -> Pos {
    use crate::oracle::{pc, sq, B, BLACK, K, N, P, Q, R, WHITE};
    loop {
        let mut p = Pos::empty();
        p.stm = rng.below(2) as u8;
        let weak = rng.below(2) as u8;
        let strong = weak ^ 1;
        // weak king near an edge
        let (f, r) = match rng.below(4) {
            0 => (rng.below(8) as i8, 0),
            1 => (rng.below(8) as i8, 7),
            2 => (0, rng.below(8) as i8),
            _ => (7, rng.below(8) as i8),
        };
        p.sq[sq(f, r) as usize] = pc(weak, K);
        let put = |p: &mut Pos, piece: u8, rng: &mut Rng| {
            for _ in 0..50 {
                let s = rng.below(64) as usize;
                if p.sq[s] == 0 && !(crate::oracle::kind(piece) == P && (s / 8 == 0 || s / 8 == 7)) {
                    p.sq[s] = piece;
                    return;
                }
            }
        };
        put(&mut p, pc(strong, K), rng);
        for _ in 0..rng.range(1, 3) {
            let k = *rng.pick(&[Q, R, R, Q, B, N]);
            put(&mut p, pc(strong, k), rng);
        }
        for _ in 0..rng.range(0, 4) {
            let k = *rng.pick(&[P, P, P, N, B, R]);
            put(&mut p, pc(weak, k), rng);
        }
        for _ in 0..rng.range(0, 3) {
            put(&mut p, pc(strong, P), rng);
        }
        let _ = (WHITE, BLACK);
        if p.validity().is_ok() && p.legal_moves().len() >= 2 {
            return p;
        }
    }
}


/// Sparse material around a cornered king: mates in one (and moves allowing one) with three to six men,
/// including minor-piece-only material, lone pawns about to promote and under-promotion mates — the
/// positions in which draw-ish shortcuts (insufficient material, fifty moves) would sit in front of the
/// mate test. Rejection sampling: only positions giving rise to a trial are used by the caller.
fn g_mating_sparse(rng: &mut Rng) -> Pos {
    use crate::oracle::{file_of, kind, on_board, pc, rank_of, sq, B, K, N, P, Q, R};
    const STRONG: &[&[u8]] = &[&[N], &[B], &[N, N], &[B, B], &[B, N], &[R], &[Q], &[P], &[P, P], &[N, P], &[B, P], &[R, N], &[R, B]];
    const WEAK: &[&[u8]] = &[&[], &[N], &[B], &[P], &[R], &[P, P], &[N, P], &[B, P], &[B, B], &[N, N], &[Q]];
    loop {
        let mut p = Pos::empty();
        p.stm = rng.below(2) as u8;
        let weak = rng.below(2) as u8;
        let strong = weak ^ 1;
        // weak king in a corner (mostly) or on an edge
        let (kf, kr): (i8, i8) = if rng.chance(3, 5) {
            (*rng.pick(&[0i8, 7]), *rng.pick(&[0i8, 7]))
        } else {
            match rng.below(4) {
                0 => (rng.below(8) as i8, 0),
                1 => (rng.below(8) as i8, 7),
                2 => (0, rng.below(8) as i8),
                _ => (7, rng.below(8) as i8),
            }
        };
        p.sq[sq(kf, kr) as usize] = pc(weak, K);
        // a square at Chebyshev distance lo..=hi from the weak king
        let near = |p: &Pos, rng: &mut Rng, lo: i8, hi: i8, piece: u8| -> Option<usize> {
            for _ in 0..60 {
                let df = rng.range(-(hi as i64), hi as i64) as i8;
                let dr = rng.range(-(hi as i64), hi as i64) as i8;
                if df.abs().max(dr.abs()) < lo || !on_board(kf + df, kr + dr) {
                    continue;
                }
                let s = sq(kf + df, kr + dr) as usize;
                if p.sq[s] != 0 || (kind(piece) == P && (rank_of(s as u8) == 0 || rank_of(s as u8) == 7)) {
                    continue;
                }
                return Some(s);
            }
            None
        };
        let kd = 2 + rng.below(2) as i8;
        let Some(s) = near(&p, rng, 2, kd, pc(strong, K)) else { continue };
        p.sq[s] = pc(strong, K);
        let mut ok = true;
        // a third of the samples: exactly one minor piece each (the material FIDE calls dead unless a
        // helpmate-like blocker stands next to the king — mates in one do exist there)
        let one_minor_each = rng.chance(1, 3);
        let weak_set: &[u8] = if one_minor_each { *rng.pick(&[&[N][..], &[B][..]]) } else { WEAK[rng.below(WEAK.len() as u64) as usize] };
        let strong_set: &[u8] = if one_minor_each { *rng.pick(&[&[N][..], &[B][..]]) } else { STRONG[rng.below(STRONG.len() as u64) as usize] };
        for &k in weak_set.iter() {
            let hi = if rng.chance(3, 4) { 1 } else { 3 };
            match near(&p, rng, 1, hi, pc(weak, k)) {
                Some(s) => p.sq[s] = pc(weak, k),
                None => ok = false,
            }
        }
        for &k in strong_set.iter() {
            let hi = if rng.chance(2, 3) { 3 } else { 7 };
            match near(&p, rng, 1, hi, pc(strong, k)) {
                Some(s) => p.sq[s] = pc(strong, k),
                None => ok = false,
            }
        }
        let _ = file_of(0);
        if ok && p.validity().is_ok() && p.legal_moves().len() >= 2 {
            return p;
        }
    }
}

pub fn run_c08(ctx: &Ctx) -> i32 {
    let spec = Spec {
        level: "exploration",
        rule: "a case is (position, depth) met along random games, synthetic positions and king-hunt studies that satisfies (a) the side to move has a mate in one (depth 1..4, depth 4 only with few men): the answer of find_best_move on a fresh engine must be one of the mating moves; or (b) no mate in one, and the legal moves split into ones that allow the opponent a mate in one and ones that do not (depth 2..3): the answer must not be one that allows it. A tenth of the trials come from batteries (a slider aimed at the king through one piece of its own side: discovered checks and mates, with loose pieces around), a tenth from sparse material around a cornered king (3..6 men: minor pieces only, lone pawns about to promote, under-promotion mates). A third of the (b) trials are asked a second time of a fresh engine that was given the game so far through the position command — a game in which the blunder was already played once, the mate missed, and both sides went back (the position after the blunder stands on record once: no draw). Sets are computed with the reference rules only; half of the positions are given with hostile move counters (halfmove clock up to 99). Distinct by (position, depth, kind); (a) is non-trivial when some legal move does not mate, (b) always",
        assumptions: vec!["the reference rules implementation is correct (perft self-test at every run)".into()],
        required: if ctx.replay.is_some() { vec![] } else { vec!["mate_in_one_trials_depth_1", "mate_in_one_trials_depth_2", "mate_in_one_trials_depth_3", "mate_in_one_trials_depth_4", "avoidable_mate_trials_depth_2", "avoidable_mate_trials_depth_3", "positions_examined_with_hostile_move_counters", "mate_in_one_trials_minor_pieces_only", "avoidable_mate_trials_minor_pieces_only", "mate_in_one_trials_at_most_5_men", "mate_in_one_trials_one_minor_piece_each", "mate_in_one_trials_where_a_mating_move_is_a_quiet_discovered_check", "avoidable_mate_trials_where_a_threatened_mate_is_a_quiet_discovered_check", "mate_in_one_trials_where_a_mating_move_is_a_double_step_next_to_an_enemy_pawn", "mating_move_is_en_passant", "avoidable_mate_trials_given_a_game_in_which_the_blunder_was_already_played_once"] },
        exhaustive: false,
        extra: vec![],
    };
    if let Some(r) = ctx.replay.as_ref() {
        let mut st = Stats::new();
        if let Some(c) = r.get("case") {
            match Pos::from_fen(&c.str_of("fen")) {
                Ok(p) if c.str_of("kind") == "avoidable_mate_with_game_record" => {
                    // the recorded position command on a fresh engine, then the search
                    let cmd = c.str_of("position_command");
                    let d = c.int_of("depth") as u8;
                    let legal = p.legal_moves();
                    let blunders: Vec<String> = legal.iter().filter(|m| { let n = p.make(m); let nl = n.legal_moves(); !mates_in_one(&n, &nl).is_empty() }).map(|m| m.uci()).collect();
                    st.case(hash64(&(cmd.clone(), d)), true);
                    let r = engine_call(|| {
                        let mut e = crate::uci::Flounder::new();
                        e.verif_handle_command(&cmd);
                        let b = *e.verif_board();
                        e.verif_searcher().find_best_move(&b, d, None).1.map(|x| x.to_algebraic())
                    });
                    match r {
                        Ok(ans) => {
                            let a = ans.unwrap_or_else(|| "none".into());
                            if blunders.contains(&a) {
                                st.violation("C08:replay:allowed-mate-with-game-record", format!("after '{}' at depth {} the engine answers {} which allows mate in one", cmd, d, a), c.clone());
                            }
                        }
                        Err(msg) => st.violation("C08:replay:panic", format!("search after '{}' panicked: {}", cmd, msg), c.clone()),
                    }
                }
                Ok(p) => {
                    let mut rng = Rng::new(1, 1);
                    c08_position(&p, &mut rng, &mut st, Some(c.int_of("depth") as u8), 32);
                }
                Err(_) => st.inconclusive.push("replay: bad fen".into()),
            }
        }
        return finalize(ctx, spec, st);
    }
    let n = ctx.budget(8000, 150_000);
    let total = parallel(ctx.workers, |w| {
        let mut st = Stats::new();
        let mut rng = Rng::new(ctx.seed, 8000 + w as u64);
        let target = n / ctx.workers as u64 + 1;
        let mut trials = 0u64;
        // the engine's own mate puzzles and the corpus first
        for i in 0..gen::CORPUS.len() {
            if i % ctx.workers == w {
                let p = gen::corpus_pos(i);
                if c08_position(&p, &mut rng, &mut st, None, 10) {
                    trials += 1;
                }
            }
        }
        while trials < target && !ctx.out_of_time() {
            match rng.below(10) {
                0..=4 => {
                    let start = if rng.chance(1, 2) { Pos::start() } else { gen::corpus_pos(rng.below(gen::CORPUS.len() as u64) as usize) };
                    let n = rng.range(30, 200) as usize;
                    let (ps, _) = gen::playout(&start, &mut rng, n);
                    for p in ps.iter() {
                        if trials >= target || ctx.out_of_time() {
                            break;
                        }
                        if c08_position(p, &mut rng, &mut st, None, 10) {
                            trials += 1;
                        }
                    }
                }
                5 => {
                    // sparse material: keep sampling until a position gives a trial
                    for _ in 0..4000 {
                        let p = g_mating_sparse(&mut rng);
                        if c08_position(&p, &mut rng, &mut st, None, 10) {
                            trials += 1;
                            st.bump("src_sparse_material_trials");
                            break;
                        }
                    }
                }
                6 => {
                    // batteries: discovered checks and discovered mates, for either side
                    let p = if rng.chance(1, 2) { gen::g_battery_loaded(&mut rng) } else { gen::g_battery(&mut rng) };
                    let (ps, _) = gen::playout(&p, &mut rng, 3);
                    for p in ps.iter() {
                        if c08_position(p, &mut rng, &mut st, None, 10) {
                            trials += 1;
                            st.bump("src_battery_trials");
                        }
                    }
                }
                7 if rng.chance(1, 4) => {
                    // the mate in one is an en-passant capture
                    if let Some(p) = gen::g_ep_mate(&mut rng) {
                        if c08_position(&p, &mut rng, &mut st, None, 10) {
                            trials += 1;
                            st.bump("src_en_passant_mate_trials");
                        }
                    }
                }
                7 if rng.chance(1, 3) => {
                    // checkmate (or stalemate) delivered by a double pawn step whose en-passant capture is
                    // pseudo-legal but illegal: the position before the step, and positions around it
                    if let Some((p, _)) = gen::g_ep_terminal(&mut rng) {
                        if c08_position(&p, &mut rng, &mut st, None, 10) {
                            trials += 1;
                            st.bump("src_double_step_mate_with_refused_en_passant_trials");
                        }
                    }
                }
                7 => {
                    let p = g_mating(&mut rng);
                    let (ps, _) = gen::playout(&p, &mut rng, 6);
                    for p in ps.iter() {
                        if c08_position(p, &mut rng, &mut st, None, 10) {
                            trials += 1;
                        }
                    }
                }
                _ => {
                    let p = gen::synth(&mut rng);
                    if c08_position(&p, &mut rng, &mut st, None, 10) {
                        trials += 1;
                    }
                }
            }
        }
        st
    });
    finalize(ctx, spec, total)
}
