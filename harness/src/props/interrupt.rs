//! C06 — a search cut off by the clock leaves nothing behind.
//! C07 — search stops promptly at its deadline.
//!
//! Fault enumeration over interruption points. A hook gives the search a *deterministic* deadline
//! (after L nodes, at the n-th deadline poll, or a real wall-clock budget); the monitor interrupts a
//! search at every point L = 1..total (or a stratified sample when the search is large), then
//!   C06: runs a completed search on the same engine and compares its value with the pruning-free
//!        reference, and compares the engine's game-history record before/after the interruption;
//!   C07: measures how many nodes were expanded after the deadline passed (a cap turns a search
//!        that ignores the deadline into a caught event instead of a hang).
//! A black-box part drives the real release binary with movetime budgets (see bb.rs users below).
use crate::bb;
use crate::board::Board;
use crate::eng;
use crate::gen;
use crate::json::J;
use crate::oracle::{Mv, Pos};
use crate::refsearch::{class, RefSearch, Val};
use crate::report::{engine_call, finalize, parallel, Ctx, Spec, Stats};
use crate::rng::{hash64, Rng};
use crate::search::Searcher;
use std::collections::HashMap;
use std::sync::atomic::{AtomicUsize, Ordering};
use std::sync::Mutex;
use std::time::Duration;

/// Nodes the engine may still expand after its deadline passed before the monitor calls it a
/// violation of "a small bounded amount of further work". The unchanged engine polls before every
/// child and overshoots by at most 1; the bound leaves room for a legitimate poll-every-4096-nodes.
pub const OVERSHOOT_BOUND: u64 = 5000;

#[derive(Clone)]
struct Plan {
    p: Pos,
    /// positions recorded as earlier game history (all have more men than p, so none can recur below p)
    hist: Vec<Pos>,
    d: u8,
    /// nodes / polls of a complete fresh search to depth k = 1..d (index k-1)
    nodes: Vec<u64>,
    polls: Vec<u64>,
    /// reference value at depth k and the value of every root move at depth k
    vals: Vec<Val>,
    move_vals: Vec<HashMap<String, Val>>,
    fixed4: bool,
    /// wall time of the complete fresh search to depth d, microseconds (sizes wall-clock deadlines)
    micros: u64,
}

#[derive(Clone, Copy, Debug)]
enum Cut {
    Node(u64),
    Poll(u64),
    /// a REAL wall-clock budget of that many microseconds handed to find_best_move: the engine's own
    /// clock path decides, not the node/poll hook
    Wall(u64),
}

impl Cut {
    fn show(&self) -> String {
        match self {
            Cut::Node(l) => format!("node {}", l),
            Cut::Poll(n) => format!("poll {}", n),
            Cut::Wall(us) => format!("wall clock {} us", us),
        }
    }
    fn json(&self) -> J {
        match self {
            Cut::Node(l) => J::obj(vec![("kind", J::s("node")), ("at", J::i(*l as i64))]),
            Cut::Poll(n) => J::obj(vec![("kind", J::s("poll")), ("at", J::i(*n as i64))]),
            Cut::Wall(us) => J::obj(vec![("kind", J::s("wall")), ("at", J::i(*us as i64))]),
        }
    }
    fn from_json(j: &J) -> Cut {
        if j.str_of("kind") == "poll" {
            Cut::Poll(j.int_of("at") as u64)
        } else if j.str_of("kind") == "wall" {
            Cut::Wall(j.int_of("at") as u64)
        } else {
            Cut::Node(j.int_of("at") as u64)
        }
    }
}

/// CPU seconds one deadline trial may burn on its thread before the hang monitor ends the run: the
/// trials search at most a few hundred thousand nodes (well under a second of CPU).
const HANG_CPU_LIMIT_S: u64 = 25;

fn set_cut(s: &mut Searcher, c: Option<Cut>) {
    let t = s.verif_timer();
    t.node_limit = None;
    t.poll_limit = None;
    match c {
        Some(Cut::Node(l)) => t.node_limit = Some(l),
        Some(Cut::Poll(n)) => t.poll_limit = Some(n),
        Some(Cut::Wall(_)) | None => {}
    }
}

fn push_history(s: &mut Searcher, hist: &[Pos]) {
    for (i, h) in hist.iter().enumerate() {
        let b = Board::new(&h.to_fen());
        s.push_position(&b);
        if i % 3 == 0 {
            // some positions are on record twice, so the history answers "draw" for them
            s.push_position(&b);
        }
    }
}

/// What the engine's history record answers: its length and the draw flag for a fixed probe set.
fn history_view(s: &Searcher, probes: &[Board]) -> (usize, Vec<bool>) {
    (s.verif_repetition_len(), probes.iter().map(|b| s.verif_is_repetition_draw(b)).collect())
}

/// Build the plan for one position: complete-search node/poll counts per depth and the reference.
fn make_plan(p: &Pos, hist: Vec<Pos>, d: u8, rs: &mut RefSearch, st: &mut Stats) -> Option<Plan> {
    let legal = p.legal_moves();
    if legal.len() < 2 {
        return None;
    }
    rs.reset();
    let mut vals = vec![];
    let mut move_vals = vec![];
    for k in 1..=d {
        match rs.value(p, k) {
            Ok(v) => vals.push(v),
            Err(_) => {
                st.bump("skipped_reference_over_budget");
                return None;
            }
        }
        let mut mv = HashMap::new();
        for m in legal.iter() {
            match rs.move_value(p, m, k) {
                Ok(v) => {
                    mv.insert(m.uci(), v);
                }
                Err(_) => return None,
            }
        }
        move_vals.push(mv);
    }
    let b = eng::board_from_pos(p);
    let mut nodes = vec![];
    let mut polls = vec![];
    let mut micros = 0u64;
    for k in 1..=d {
        let r = engine_call(|| {
            let mut s = Searcher::new();
            s.verif_timer().hard_cap = Some(50_000_000);
            let t0 = std::time::Instant::now();
            let (sc, _) = s.find_best_move(&b, k, None);
            (sc, s.verif_nodes(), s.verif_polls(), t0.elapsed().as_micros() as u64)
        });
        match r {
            Ok((sc, n, pl, us)) => {
                micros = us;
                if class(sc) != vals[k as usize - 1] {
                    // the uninterrupted search already disagrees with the reference: that is C05's
                    // finding, not an effect of an interruption — do not judge this position here
                    st.bump("skipped_uninterrupted_search_disagrees_with_reference");
                    return None;
                }
                nodes.push(n);
                polls.push(pl);
            }
            Err(_) => {
                st.bump("skipped_uninterrupted_search_panicked");
                return None;
            }
        }
    }
    Some(Plan { p: p.clone(), hist, d, nodes, polls, vals, move_vals, fixed4: false, micros })
}

/// iteration in flight when the deadline falls at `c`
fn iteration_at(plan: &Plan, c: Cut) -> u8 {
    let (x, bounds) = match c {
        Cut::Node(l) => (l, &plan.nodes),
        Cut::Poll(n) => (n, &plan.polls),
        // not known in advance: the later search's depth is read off what the engine left (see run_trial)
        Cut::Wall(_) => return 1,
    };
    for (i, b) in bounds.iter().enumerate() {
        if x <= *b {
            return i as u8 + 1;
        }
    }
    plan.d
}

struct Trial {
    plan: usize,
    cuts: Vec<Cut>,
    later_depth: u8,
}

fn trial_json_warm(plan: &Plan, cuts: &[Cut], later_depth: u8, warm: bool) -> J {
    let mut j = trial_json(plan, cuts, later_depth);
    if let J::Obj(v) = &mut j {
        v.push(("earlier_unrelated_search".into(), J::Bool(warm)));
    }
    j
}

fn trial_json(plan: &Plan, cuts: &[Cut], later_depth: u8) -> J {
    J::obj(vec![
        ("fen", J::s(plan.p.to_fen())),
        ("depth", J::i(plan.d as i64)),
        ("history", J::Arr(plan.hist.iter().map(|h| J::s(h.to_fen())).collect())),
        ("cuts", J::Arr(cuts.iter().map(|c| c.json()).collect())),
        ("later_depth", J::i(later_depth as i64)),
    ])
}

/// One trial: interrupted search(es) then a completed one, all on one engine instance.
/// An unrelated position whose search tree (to depth d) shares no position with the tree of `p`: far more
/// or far fewer men (a tree's positions have between men-depth and men pieces). Used as the engine's
/// EARLIER search in a share of the trials: whatever a search of another position left in the engine —
/// tables, counters, remembered iterations — must not leak into the position searched afterwards.
fn unrelated_position(p: &Pos, d: u8) -> Pos {
    let men = p.piece_count() as i64;
    if men + d as i64 + 1 <= 26 {
        // a middlegame position with clearly more men
        Pos::from_fen("r3k2r/p1ppqpb1/bn2pnp1/3PN3/1p2P3/2N2Q1p/PPPBBPPP/R3K2R w KQkq - 0 1").unwrap()
    } else {
        Pos::from_fen("8/5pk1/6p1/8/3B4/6K1/8/8 b - - 0 1").unwrap()
    }
}

fn run_trial(which: &str, plan: &Plan, cuts: &[Cut], later_depth: u8, st: &mut Stats) {
    run_trial_warm(which, plan, cuts, later_depth, false, st)
}

fn run_trial_warm(which: &str, plan: &Plan, cuts: &[Cut], later_depth: u8, warm: bool, st: &mut Stats) {
    let b = eng::board_from_pos(&plan.p);
    let legal = plan.p.legal_moves();
    let mut probes: Vec<Board> = legal.iter().take(6).map(|m| Board::new(&plan.p.make(m).to_fen())).collect();
    probes.push(b);
    for h in plan.hist.iter().take(6) {
        probes.push(Board::new(&h.to_fen()));
    }
    let case = || trial_json_warm(plan, cuts, later_depth, warm);
    let _guard = crate::report::guard_case(
        HANG_CPU_LIMIT_S,
        which == "C07",
        format!("C07:no-return:{}:{}:{}", plan.p.to_fen(), plan.d, cuts.iter().map(|c| c.show()).collect::<Vec<_>>().join("+")),
        format!("search of {} to depth {} with the deadline at {}", plan.p.to_fen(), plan.d, cuts.iter().map(|c| c.show()).collect::<Vec<_>>().join(" then ")),
        case(),
    );
    let mut s = Searcher::new();
    if warm {
        // an earlier, completed search of an unrelated position to the same depth on this engine
        let q = unrelated_position(&plan.p, plan.d);
        let qb = eng::board_from_pos(&q);
        s.verif_timer().hard_cap = Some(20_000_000);
        let r = {
            let s = &mut s;
            engine_call(|| s.find_best_move(&qb, plan.d, None))
        };
        if r.is_err() {
            st.bump("skipped_earlier_unrelated_search_panicked");
            return;
        }
        st.bump("trials_after_an_earlier_search_of_an_unrelated_position");
        s.clear_positions();
    }
    push_history(&mut s, &plan.hist);
    let before = history_view(&s, &probes);
    let total = *plan.nodes.last().unwrap();
    let mut any_interrupted = false;
    let mut wall_interrupted = false;
    for c in cuts.iter() {
        set_cut(&mut s, Some(*c));
        s.verif_timer().overrun_cap = Some(OVERSHOOT_BOUND);
        s.verif_timer().hard_cap = Some(total * 4 + 1_000_000);
        let budget = match c {
            Cut::Wall(us) => Some(Duration::from_micros(*us)),
            _ => None,
        };
        let r = {
            let s = &mut s;
            engine_call(|| s.find_best_move(&b, plan.d, budget))
        };
        let interrupted = match c {
            Cut::Node(l) => *l < total,
            Cut::Poll(n) => *n < *plan.polls.last().unwrap(),
            Cut::Wall(_) => {
                // a search that ran out of wall-clock time has not completed its last iteration: the
                // root entry it left is shallower than the depth asked for
                let h = s.verif_hash(&b);
                let done = s.verif_tt_entries().iter().filter(|e| e.hash_key == h).map(|e| e.depth).max().unwrap_or(0);
                if done < plan.d {
                    wall_interrupted = true;
                    st.bump("interrupted_by_a_real_wall_clock_budget");
                    st.bump(&format!("wall_clock_budget_ran_out_in_iteration_{}", done + 1));
                }
                done < plan.d
            }
        };
        match r {
            Err(msg) => {
                if msg.contains("after the deadline") {
                    st.bump("deadline_ignored_cap_fired");
                    if which == "C07" {
                        st.violation(
                            format!("C07:ignored:{}:{}:{}", plan.p.to_fen(), plan.d, c.show()),
                            format!("search of {} to depth {} with the deadline at {} expanded more than {} further nodes (stopped by the monitor's cap)", plan.p.to_fen(), plan.d, c.show(), OVERSHOOT_BOUND),
                            case(),
                        );
                    }
                } else {
                    st.violation(
                        format!("{}:panic:{}:{}:{}", which, plan.p.to_fen(), plan.d, c.show()),
                        format!("search of {} to depth {} interrupted at {} panicked: {}", plan.p.to_fen(), plan.d, c.show(), msg),
                        case(),
                    );
                }
                return; // the engine instance is in an undefined state after unwinding
            }
            Ok((_sc, mv)) => {
                let nodes = s.verif_nodes();
                let over = s.verif_timer().expired_at.get().map(|at| nodes.saturating_sub(at)).unwrap_or(0);
                any_interrupted |= s.verif_timer().expired_at.get().is_some();
                st.maxi("max_nodes_after_deadline", over);
                if interrupted {
                    st.bump("interrupted_searches");
                    if !matches!(c, Cut::Wall(_)) {
                        st.bump(&format!("interrupted_in_iteration_{}", iteration_at(plan, *c)));
                    }
                } else {
                    st.bump("deadline_after_search_end");
                }
                if over == 0 {
                    st.bump("overshoot_0");
                } else if over <= 1 {
                    st.bump("overshoot_1");
                } else if over <= 64 {
                    st.bump("overshoot_2_to_64");
                } else {
                    st.bump("overshoot_above_64");
                }
                if which == "C07" && over > OVERSHOOT_BOUND {
                    st.violation(
                        format!("C07:overshoot:{}:{}:{}", plan.p.to_fen(), plan.d, c.show()),
                        format!("search of {} to depth {} with the deadline at {} expanded {} further nodes", plan.p.to_fen(), plan.d, c.show(), over),
                        case(),
                    );
                }
                // the interrupted search must still name a legal move (C03's business when wrong;
                // recorded here as an observation only)
                if mv.map(|m| legal.iter().any(|x| x.uci() == m.to_algebraic())) != Some(true) {
                    st.bump("interrupted_search_answer_not_legal");
                }
            }
        }
        if which == "C06" {
            let after = history_view(&s, &probes);
            st.bump("history_comparisons");
            if after != before {
                st.violation(
                    format!("C06:history:{}:{}:{}", plan.p.to_fen(), plan.d, c.show()),
                    format!(
                        "after a search of {} (depth {}) interrupted at {} the game-history record changed: length {} -> {}, draw answers for {} probe positions {}",
                        plan.p.to_fen(),
                        plan.d,
                        c.show(),
                        before.0,
                        after.0,
                        probes.len(),
                        if before.1 == after.1 { "unchanged" } else { "changed" }
                    ),
                    case(),
                );
                return;
            }
        }
    }
    if which != "C06" {
        return;
    }
    // the later, completed search
    set_cut(&mut s, None);
    s.verif_timer().overrun_cap = None;
    s.verif_timer().hard_cap = Some(total * 8 + 2_000_000);
    let fixed = plan.fixed4;
    // An earlier search of this trial may have COMPLETED more iterations than the plan (measured on
    // a fresh engine) says: a first interruption leaves completed entries behind that make the
    // second search cheaper, so its deadline falls later or not at all. The root entry tells the
    // deepest completed iteration; a later search shallower than that may rightly answer from it.
    let mut later_depth = later_depth;
    {
        let h = s.verif_hash(&b);
        let done = s.verif_tt_entries().iter().filter(|e| e.hash_key == h).map(|e| e.depth).max().unwrap_or(0);
        // the iteration that was in flight when the last deadline fell left entries of its own
        // depth behind: the later search must not be shallower than that iteration either
        let in_flight = if any_interrupted || wall_interrupted { (done + 1).min(plan.d) } else { done.min(plan.d) };
        if done > plan.d {
            st.bump("skipped_earlier_search_completed_deeper_than_the_reference");
            return;
        }
        if in_flight > later_depth {
            later_depth = in_flight;
            st.bump("later_depth_raised_to_the_iteration_really_in_flight");
        }
    }
    let r = {
        let s = &mut s;
        engine_call(|| if fixed { s.verif_search_fixed(&b, later_depth) } else { s.find_best_move(&b, later_depth, None) })
    };
    let (score, mv) = match r {
        Ok(x) => x,
        Err(msg) => {
            st.violation(
                format!("C06:later-panic:{}:{}", plan.p.to_fen(), plan.d),
                format!("the completed search after an interruption of {} (depth {}, cuts {:?}) panicked: {}", plan.p.to_fen(), plan.d, cuts, msg),
                case(),
            );
            return;
        }
    };
    if fixed && s.verif.tt_returned_deeper > 0 {
        st.bump("excluded_deeper_cached_result_reused");
        return;
    }
    st.bump("later_searches_judged");
    st.bump(&format!("later_depth_{}", later_depth));
    let want = plan.vals[later_depth as usize - 1];
    let cuts_s: Vec<String> = cuts.iter().map(|c| c.show()).collect();
    if class(score) != want {
        st.violation(
            format!("C06:later-value:{}:{}:{}", plan.p.to_fen(), plan.d, cuts_s.join("+")),
            format!(
                "{}: search to depth {} interrupted at {}, then a completed search to depth {} reports {} but the minimax value is {}",
                plan.p.to_fen(),
                plan.d,
                cuts_s.join(" and "),
                later_depth,
                score,
                want.show()
            ),
            case(),
        );
        return;
    }
    let u = mv.map(|m| m.to_algebraic()).unwrap_or_else(|| "none".into());
    match plan.move_vals[later_depth as usize - 1].get(&u) {
        Some(v) if *v == want => {}
        other => {
            st.violation(
                format!("C06:later-move:{}:{}:{}", plan.p.to_fen(), plan.d, cuts_s.join("+")),
                format!(
                    "{}: search to depth {} interrupted at {}, then a completed search to depth {} answers {} whose value is {} while the position's value is {}",
                    plan.p.to_fen(),
                    plan.d,
                    cuts_s.join(" and "),
                    later_depth,
                    u,
                    other.map(|v| v.show()).unwrap_or_else(|| "not a legal move".into()),
                    want.show()
                ),
                case(),
            );
        }
    }
}

/// A position with a recorded earlier game: a playout in which a capture happened; the history is
/// the part of the game before the last capture (more men than the position itself).
fn pos_with_history(rng: &mut Rng, small: bool) -> (Pos, Vec<Pos>) {
    loop {
        let start = if small {
            gen::g_small(rng, 9)
        } else if rng.chance(1, 2) {
            Pos::start()
        } else {
            gen::corpus_pos(rng.below(gen::CORPUS.len() as u64) as usize)
        };
        let n = if small { rng.range(2, 10) } else { rng.range(6, 70) } as usize;
        let (ps, _) = gen::playout(&start, rng, n);
        let p = ps.last().unwrap().clone();
        if p.legal_moves().len() < 2 {
            continue;
        }
        let hist: Vec<Pos> = ps.iter().filter(|h| h.piece_count() > p.piece_count()).rev().take(12).cloned().collect();
        return (p, hist);
    }
}

fn cuts_for(plan: &Plan, max_points: u64, rng: &mut Rng) -> Vec<Cut> {
    let total = *plan.nodes.last().unwrap();
    let mut v: Vec<u64> = vec![];
    if total <= max_points {
        v.extend(1..=total);
    } else {
        // every iteration boundary +-2, then a stratified sample
        for b in plan.nodes.iter() {
            for x in b.saturating_sub(2)..=b + 2 {
                if x >= 1 && x <= total {
                    v.push(x);
                }
            }
        }
        v.extend([1, 2, 3]);
        let strata = max_points.saturating_sub(v.len() as u64).max(1);
        for i in 0..strata {
            let lo = 1 + total * i / strata;
            let hi = (total * (i + 1) / strata).max(lo);
            v.push(rng.range(lo as i64, hi as i64) as u64);
        }
        v.sort();
        v.dedup();
    }
    v.into_iter().map(Cut::Node).collect()
}

pub fn spec_for(which: &str, replay: bool) -> Spec<'static> {
    if which == "C06" {
        Spec {
            level: "fault_enumeration",
            rule: "a case is (position with recorded earlier game, depth d in 2..3 [thorough: also 4 on few-men positions], interruption point(s), depth D of the later search). The interruption point is a deterministic deadline: after L nodes for EVERY L in 1..total when the complete search has <= max_points nodes (otherwise all iteration boundaries +-2 and a stratified sample), or at the n-th deadline poll (sampled), or a REAL wall-clock budget between zero and the time the complete search takes (the engine's own clock path; which iteration it ran out in is read off the root entry left behind), or two successive interruptions (also a wall-clock one before or after a node one). In a quarter of the trials the engine has first completed a search of an unrelated position (one whose tree shares no position with this one's) to the same depth. After the interruption(s) the same engine instance runs a completed search to depth D (the iteration that was in flight, and d); its value class must equal the reference minimax value and its move must attain it; the history record (length and draw answers for the root, its successors and the recorded positions) must be unchanged by the interruption. Deep part: searches of 4..9 iterations (up to a few hundred thousand nodes) interrupted at every iteration boundary plus small offsets, at stratified node counts, at polls and twice in a row; only the history record is judged there (no reference value at that depth). Distinct by (position, d, cuts, D); non-trivial when at least one search was really interrupted (deadline before the end of the complete search)",
            assumptions: vec![
                "the reference rules implementation is correct (perft self-test at every run)".into(),
                "the node/poll deadline hook stops the search exactly as an expired wall clock does: both are answered by SearchTimer::should_stop, the only place the engine asks about its deadline".into(),
                "positions whose reference tree or quiescence exceeds the node budget are skipped and counted".into(),
            ],
            required: if replay { vec![] } else { vec!["interrupted_searches", "later_searches_judged", "history_comparisons", "interrupted_in_iteration_1", "interrupted_in_iteration_2", "interrupted_in_iteration_3", "poll_deadline_trials", "double_interruption_trials", "interrupted_by_a_real_wall_clock_budget", "trials_after_an_earlier_search_of_an_unrelated_position", "positions_enumerated_exhaustively", "deep_history_interrupted_searches", "deep_history_interrupted_in_iteration_5_or_later"] },
            exhaustive: false,
            extra: vec![],
        }
    } else {
        Spec {
            level: "fault_enumeration",
            rule: "a case is (position, depth, deadline). Deadlines are deterministic (after L nodes — every L for small searches, stratified otherwise — or at the n-th poll) or real wall-clock budgets of 0..20 ms (on fresh engines and on engines that have just finished a long search — one that ran into its deadline, or a depth-limited one that ended hours before its deadline); positions include promotion races whose quiescence explodes and middlegames at depth 4..5. Observed: the number of nodes expanded between the moment the deadline passed (recorded by the hook at the node counter) and the return of the search; a cap turns a search that keeps going into a caught event. Black-box part: CPU time of the real release binary between 'go movetime T' and 'bestmove'. Violation: more than 5000 nodes after the deadline, or CPU time above T + 500 ms. Distinct by (position, depth, deadline); non-trivial when the deadline really fell inside the search",
            assumptions: vec![
                "5000 nodes / 500 ms are the monitor's reading of 'a small bounded amount of further work' (the unchanged engine overshoots by at most one node); a legitimate poll-every-few-thousand-nodes design is deliberately not accused".into(),
                "CPU time of a single-threaded process never exceeds its wall time, so CPU time above the bound is a sound witness of a wall-clock overrun whatever the machine load".into(),
            ],
            required: if replay { vec![] } else { vec!["interrupted_searches", "explosive_quiescence_trials", "deep_middlegame_trials", "wall_clock_trials", "wall_clock_trials_on_an_engine_that_searched_before", "blackbox_go_movetime", "blackbox_short_go_after_a_long_search", "wall_clock_trials_on_sparse_endgames", "blackbox_go_movetime_on_sparse_endgames", "wall_clock_trials_after_a_search_that_ended_long_before_its_deadline", "blackbox_go_movetime_of_seconds_on_tactical_positions"] },
            exhaustive: false,
            extra: vec![],
        }
    }
}

fn replay_case(which: &str, c: &J, st: &mut Stats) {
    if c.str_of("kind") == "depth4" {
        match Pos::from_fen(&c.str_of("fen")) {
            Ok(p) => {
                let mut rs = RefSearch::new(50_000_000, 5_000_000);
                let l = c.get("cuts").and_then(|h| h.as_arr()).and_then(|a| a.first().map(|x| x.int_of("at") as u64)).unwrap_or(1);
                match rs.value(&p, 4) {
                    Ok(want) => depth4_trial(&p, want, 10_000_000, l, st),
                    Err(_) => st.inconclusive.push("replay: reference over budget".into()),
                }
            }
            Err(_) => st.inconclusive.push("replay: bad fen".into()),
        }
        return;
    }
    if c.str_of("kind") == "deep_history" {
        if let Ok(p) = Pos::from_fen(&c.str_of("fen")) {
            let hist: Vec<Pos> = c.get("history").and_then(|h| h.as_arr()).map(|a| a.iter().filter_map(|x| x.as_str().and_then(|f| Pos::from_fen(f).ok())).collect()).unwrap_or_default();
            let cuts: Vec<Cut> = c.get("cuts").and_then(|h| h.as_arr()).map(|a| a.iter().map(Cut::from_json).collect()).unwrap_or_default();
            let d = c.int_of("depth") as u8;
            let b = eng::board_from_pos(&p);
            let mut bounds = vec![];
            for k in 1..=d {
                if let Ok(n) = engine_call(|| {
                    let mut s = Searcher::new();
                    s.verif_timer().hard_cap = Some(50_000_000);
                    s.find_best_move(&b, k, None);
                    s.verif_nodes()
                }) {
                    bounds.push(n);
                }
            }
            if bounds.is_empty() {
                bounds.push(1_000_000);
            }
            let legal = p.legal_moves();
            let mut probes: Vec<Board> = legal.iter().take(6).map(|m| Board::new(&p.make(m).to_fen())).collect();
            probes.push(eng::board_from_pos(&p));
            for h in hist.iter().take(6) {
                probes.push(Board::new(&h.to_fen()));
            }
            deep_history_trial(&p, &hist, d, &cuts, &bounds, &probes, c, st);
        } else {
            st.inconclusive.push("replay: bad fen".into());
        }
        return;
    }
    if c.str_of("kind") == "blackbox" || c.str_of("kind") == "big" || c.str_of("kind") == "wall" || c.str_of("kind") == "wall_reused" {
        replay_other(which, c, st);
        return;
    }
    let p = match Pos::from_fen(&c.str_of("fen")) {
        Ok(p) => p,
        Err(_) => {
            st.inconclusive.push("replay: bad fen".into());
            return;
        }
    };
    let hist: Vec<Pos> = c.get("history").and_then(|h| h.as_arr()).map(|a| a.iter().filter_map(|x| x.as_str().and_then(|f| Pos::from_fen(f).ok())).collect()).unwrap_or_default();
    let d = c.int_of("depth") as u8;
    let cuts: Vec<Cut> = c.get("cuts").and_then(|h| h.as_arr()).map(|a| a.iter().map(Cut::from_json).collect()).unwrap_or_default();
    let mut rs = RefSearch::new(50_000_000, 5_000_000);
    match make_plan(&p, hist, d.min(3).max(1), &mut rs, st) {
        Some(mut plan) => {
            plan.d = d.min(3).max(1);
            st.case(hash64(&(p.key(), d)), true);
            let warm = matches!(c.get("earlier_unrelated_search"), Some(J::Bool(true)));
            run_trial_warm(which, &plan, &cuts, (c.int_of("later_depth") as u8).clamp(1, plan.d), warm, st);
        }
        None => st.inconclusive.push("replay: the position cannot be planned (reference over budget or uninterrupted search disagrees)".into()),
    }
}

pub fn run(ctx: &Ctx) -> i32 {
    let which: &'static str = if ctx.id == "C06" { "C06" } else { "C07" };
    if let Some(r) = ctx.replay.as_ref() {
        let mut st = Stats::new();
        if let Some(c) = r.get("case") {
            replay_case(which, c, &mut st);
        }
        return finalize(ctx, spec_for(which, true), st);
    }
    let n_pos = if which == "C06" { ctx.budget(36, 480) } else { ctx.budget(20, 200) } as usize;
    let max_points = if which == "C06" { ctx.budget(260, 3000) } else { ctx.budget(160, 1500) };
    // ---- phase 1: plans (reference values, node counts per iteration), in parallel
    let plans: Mutex<Vec<Plan>> = Mutex::new(vec![]);
    let made = AtomicUsize::new(0);
    let mut total = parallel(ctx.workers, |w| {
        let mut st = Stats::new();
        let mut rng = Rng::new(ctx.seed, 6000 + w as u64);
        let mut rs = RefSearch::new(if ctx.quick() { 120_000 } else { 2_000_000 }, 20_000);
        let mut tries = 0;
        while made.load(Ordering::Relaxed) < n_pos && tries < n_pos * 30 && (made.load(Ordering::Relaxed) < 6 || !ctx.past(0.3)) {
            tries += 1;
            let small = tries % 3 == 0;
            let (p, hist) = pos_with_history(&mut rng, small);
            let d = if tries % 2 == 0 { 3 } else { 2 };
            if let Some(plan) = make_plan(&p, hist, d, &mut rs, &mut st) {
                // keep searches of a size that lets many interruption points be tried
                if *plan.nodes.last().unwrap() > if ctx.quick() { 25_000 } else { 150_000 } {
                    st.bump("skipped_search_too_large_for_enumeration");
                    continue;
                }
                if made.fetch_add(1, Ordering::Relaxed) < n_pos {
                    plans.lock().unwrap().push(plan);
                }
            }
        }
        st
    });
    let mut plans = plans.into_inner().unwrap();
    // anchor plans (same for every seed and machine load): one search small enough to be enumerated
    // node by node and one three-iteration search
    {
        let mut rs = RefSearch::new(2_000_000, 50_000);
        for (fen, d) in [("8/8/4k3/8/8/4K3/4P3/8 w - - 0 1", 2u8), ("8/5pk1/6p1/8/3B4/6K1/8/8 b - - 0 1", 3u8), ("8/4p3/p7/np6/3k4/5K2/8/8 b - - 0 1", 2u8)] {
            if let Some(plan) = make_plan(&Pos::from_fen(fen).unwrap(), vec![], d, &mut rs, &mut total) {
                plans.push(plan);
            }
        }
    }
    say!("phase 1 (plans) done at {:.1}s", ctx.start.elapsed().as_secs_f64());
    // ---- phase 2: the trials, work-shared
    let mut trials: Vec<Trial> = vec![];
    {
        let mut rng = Rng::new(ctx.seed, 6999);
        for (pi, plan) in plans.iter().enumerate() {
            let total_nodes = *plan.nodes.last().unwrap();
            let cuts = cuts_for(plan, max_points, &mut rng);
            if total_nodes <= max_points {
                total.bump("positions_enumerated_exhaustively");
            } else {
                total.bump("positions_sampled");
            }
            for c in cuts.iter() {
                let k = iteration_at(plan, *c);
                trials.push(Trial { plan: pi, cuts: vec![*c], later_depth: k });
                if which == "C06" && k != plan.d && rng.chance(1, 3) {
                    trials.push(Trial { plan: pi, cuts: vec![*c], later_depth: plan.d });
                }
            }
            // deadlines expressed in polls (finer than nodes: several polls per node)
            let total_polls = *plan.polls.last().unwrap();
            let n_poll = (max_points / 6).max(8);
            for _ in 0..n_poll {
                let c = Cut::Poll(rng.range(1, total_polls as i64) as u64);
                trials.push(Trial { plan: pi, cuts: vec![c], later_depth: iteration_at(plan, c) });
                total.bump("poll_deadline_trials");
            }
            // real wall-clock budgets (the engine's own clock path, not the node/poll hook): from zero to a
            // little more than the complete search takes on this machine
            if which == "C06" {
                for i in 0..(max_points / 5).max(10) {
                    let us = if i == 0 { 0 } else { rng.range(0, (plan.micros + plan.micros / 4 + 20) as i64) as u64 };
                    let c = Cut::Wall(us);
                    if i % 4 == 3 {
                        // after (or before) a deterministic interruption on the same engine
                        let a = Cut::Node(rng.range(1, total_nodes as i64) as u64);
                        trials.push(Trial { plan: pi, cuts: if i % 8 == 3 { vec![a, c] } else { vec![c, a] }, later_depth: iteration_at(plan, a) });
                    } else {
                        trials.push(Trial { plan: pi, cuts: vec![c], later_depth: 1 });
                    }
                    total.bump("wall_clock_budget_trials");
                }
            }
            // two interruptions before the completed search
            if which == "C06" {
                for _ in 0..(max_points / 6).max(8) {
                    let a = Cut::Node(rng.range(1, total_nodes as i64) as u64);
                    let b = Cut::Node(rng.range(1, total_nodes as i64) as u64);
                    let k = iteration_at(plan, b).max(iteration_at(plan, a));
                    trials.push(Trial { plan: pi, cuts: vec![a, b], later_depth: k });
                    total.bump("double_interruption_trials");
                }
            }
        }
        rng.shuffle(&mut trials);
    }
    total.add("plans", plans.len() as u64);
    let next = AtomicUsize::new(0);
    let st2 = parallel(ctx.workers, |_w| {
        let mut st = Stats::new();
        loop {
            let i = next.fetch_add(1, Ordering::Relaxed);
            if i >= trials.len() || (i >= 200 && ctx.past(0.75)) {
                break;
            }
            let t = &trials[i];
            let plan = &plans[t.plan];
            let total_nodes = *plan.nodes.last().unwrap();
            let really = t.cuts.iter().any(|c| match c {
                Cut::Node(l) => *l < total_nodes,
                Cut::Poll(n) => *n < *plan.polls.last().unwrap(),
                Cut::Wall(us) => *us < plan.micros,
            });
            st.case(hash64(&(plan.p.key(), plan.d, format!("{:?}", t.cuts), t.later_depth)), really);
            st.sample_tagged(&format!("{}{}{}", t.cuts.len(), matches!(t.cuts[0], Cut::Poll(_)), matches!(t.cuts[0], Cut::Wall(_))), || trial_json(plan, &t.cuts, t.later_depth));
            let warm = which == "C06" && i % 4 == 1;
            run_trial_warm(which, plan, &t.cuts, t.later_depth, warm, &mut st);
        }
        st
    });
    total.merge(st2);
    say!("phase 2 (trials) done at {:.1}s", ctx.start.elapsed().as_secs_f64());
    if trials.len() > 0 && next.load(Ordering::Relaxed) < trials.len() {
        total.add("trials_not_run_out_of_time", (trials.len() - next.load(Ordering::Relaxed).min(trials.len())) as u64);
    }
    // ---- extra parts
    if which == "C06" {
        total.merge(c06_deep_history(ctx));
        say!("deep-search history part done at {:.1}s", ctx.start.elapsed().as_secs_f64());
        total.merge(c06_depth4(ctx));
        say!("depth-4 part done at {:.1}s", ctx.start.elapsed().as_secs_f64());
        total.merge(c06_blackbox(ctx));
    } else {
        total.merge(c07_big(ctx));
        say!("big-search part done at {:.1}s", ctx.start.elapsed().as_secs_f64());
        total.merge(c07_wall(ctx));
        say!("wall-clock part done at {:.1}s", ctx.start.elapsed().as_secs_f64());
        total.merge(c07_blackbox(ctx));
    }
    finalize(ctx, spec_for(which, false), total)
}


// ------------------------------------------------------- C06: deep searches, history record only

/// Interruptions of DEEP searches (iterations 4..8, up to a few hundred thousand nodes): no
/// reference value exists at that depth, so only the second half of the property is judged — the
/// game-history record (length and draw answers) after the interrupted search must be exactly what
/// it was before. Deadlines: every iteration boundary plus small offsets (the first moments of an
/// iteration, where per-iteration set-up such as aspiration windows runs), stratified node counts,
/// deadline polls, and two interruptions in a row.
fn c06_deep_history(ctx: &Ctx) -> Stats {
    let n_pos = ctx.budget(32, 400);
    let budget_nodes: u64 = if ctx.quick() { 120_000 } else { 400_000 };
    parallel(ctx.workers, |w| {
        let mut st = Stats::new();
        let mut rng = Rng::new(ctx.seed, 6500 + w as u64);
        for i in 0..(n_pos / ctx.workers as u64 + 1) {
            if i >= 1 && ctx.past(0.93) {
                break;
            }
            let (p, hist) = pos_with_history(&mut rng, i % 2 == 1);
            let b = eng::board_from_pos(&p);
            let legal = p.legal_moves();
            // node counts of complete searches per depth on fresh engines (deterministic)
            let mut bounds: Vec<u64> = vec![];
            for k in 1..=9u8 {
                let r = engine_call(|| {
                    let mut s = Searcher::new();
                    s.verif_timer().node_limit = Some(budget_nodes);
                    s.find_best_move(&b, k, None);
                    (s.verif_nodes(), s.verif_timer().expired_at.get().is_some())
                });
                match r {
                    Ok((n, false)) => bounds.push(n),
                    _ => break,
                }
            }
            if bounds.len() < 4 {
                st.bump("deep_history_positions_skipped_too_large");
                continue;
            }
            let d = bounds.len() as u8; // deepest iteration that completes inside the node budget
            let total = *bounds.last().unwrap();
            st.bump("deep_history_positions");
            st.maxi("max_depth_of_deep_history_searches", d as u64);
            let mut cuts: Vec<Vec<Cut>> = vec![];
            for bd in bounds.iter() {
                for off in [0u64, 1, 2, 3, 5, 8, 13, 21, 34, 55] {
                    if bd + off < total {
                        cuts.push(vec![Cut::Node(bd + off)]);
                    }
                }
            }
            for _ in 0..12 {
                cuts.push(vec![Cut::Node(rng.range(1, total as i64) as u64)]);
            }
            for _ in 0..4 {
                cuts.push(vec![Cut::Poll(rng.range(1, (total * 2) as i64) as u64)]);
            }
            for _ in 0..4 {
                cuts.push(vec![Cut::Node(rng.range(1, total as i64) as u64), Cut::Node(rng.range(1, total as i64) as u64)]);
            }
            let mut probes: Vec<Board> = legal.iter().take(6).map(|m| Board::new(&p.make(m).to_fen())).collect();
            probes.push(eng::board_from_pos(&p));
            for h in hist.iter().take(6) {
                probes.push(Board::new(&h.to_fen()));
            }
            for cs in cuts.iter() {
                let case = J::obj(vec![
                    ("kind", J::s("deep_history")),
                    ("fen", J::s(p.to_fen())),
                    ("history", J::arr_s(hist.iter().map(|h| h.to_fen()))),
                    ("depth", J::i(d as i64)),
                    ("cuts", J::Arr(cs.iter().map(|c| c.json()).collect())),
                ]);
                deep_history_trial(&p, &hist, d, cs, &bounds, &probes, &case, &mut st);
            }
        }
        st
    })
}

fn deep_history_trial(p: &Pos, hist: &[Pos], d: u8, cs: &[Cut], bounds: &[u64], probes: &[Board], case: &J, st: &mut Stats) {
    let b = eng::board_from_pos(p);
    let shown = cs.iter().map(|c| c.show()).collect::<Vec<_>>().join(" then ");
    let _guard = crate::report::guard_case(HANG_CPU_LIMIT_S * 2, false, String::new(), format!("deep search of {} (depth {}) interrupted at {}", p.to_fen(), d, shown), case.clone());
    let mut s = Searcher::new();
    push_history(&mut s, hist);
    let before = history_view(&s, probes);
    st.case(hash64(&(p.key(), d, format!("{:?}", cs), 99u8)), true);
    st.sample_tagged("deep_history", || case.clone());
    for c in cs.iter() {
        set_cut(&mut s, Some(*c));
        s.verif_timer().hard_cap = Some(bounds.last().unwrap() * 4 + 1_000_000);
        let r = {
            let s = &mut s;
            engine_call(|| {
                s.find_best_move(&b, d, None);
            })
        };
        if let Err(msg) = r {
            st.violation(format!("C06:panic:{}:{}:{}", p.to_fen(), d, c.show()), format!("deep search of {} to depth {} interrupted at {} panicked: {}", p.to_fen(), d, c.show(), msg), case.clone());
            return;
        }
        if s.verif_timer().expired_at.get().is_some() {
            st.bump("deep_history_interrupted_searches");
            if let Cut::Node(l) = c {
                let k = bounds.iter().position(|x| l < x).map(|i| i + 1).unwrap_or(bounds.len());
                st.bump(&format!("deep_history_interrupted_in_iteration_{}", k));
                if k >= 5 {
                    st.bump("deep_history_interrupted_in_iteration_5_or_later");
                }
            }
        }
        let after = history_view(&s, probes);
        st.bump("history_comparisons");
        if after != before {
            st.violation(
                format!("C06:history:{}:{}:{}", p.to_fen(), d, c.show()),
                format!(
                    "after a deep search of {} (depth {}) interrupted at {} the game-history record changed: length {} -> {}, draw answers for {} probe positions {}",
                    p.to_fen(),
                    d,
                    c.show(),
                    before.0,
                    after.0,
                    probes.len(),
                    if before.1 == after.1 { "unchanged" } else { "changed" }
                ),
                case.clone(),
            );
            return;
        }
    }
}

// ------------------------------------------------------------------------------ C06: depth 4 part


/// One depth-4 trial: iterative search to depth 4 interrupted at node `l`, then ONE fixed depth-4 search.
fn depth4_trial(p: &Pos, want: Val, total: u64, l: u64, st: &mut Stats) {
    let b = eng::board_from_pos(p);
    let mut s = Searcher::new();
    s.verif_timer().node_limit = Some(l);
    s.verif_timer().hard_cap = Some(total * 4 + 1_000_000);
    if engine_call(|| s.find_best_move(&b, 4, None)).is_err() {
        return;
    }
    s.verif_timer().node_limit = None;
    // the counter is NOT reset: entries the interrupted search completed and stored may
    // themselves rest on a deeper cached result, which the later search then meets as a
    // same-depth entry — the whole configuration is outside the quantifier then
    let r = {
        let s = &mut s;
        engine_call(|| s.verif_search_fixed(&b, 4))
    };
    st.case(hash64(&(p.key(), 4u8, l)), true);
    st.bump("depth4_trials");
    let case = || J::obj(vec![("kind", J::s("depth4")), ("fen", J::s(p.to_fen())), ("depth", J::i(4)), ("cuts", J::Arr(vec![Cut::Node(l).json()])), ("later_depth", J::i(4))]);
    match r {
        Err(msg) => st.violation(format!("C06:later-panic:{}:4", p.to_fen()), format!("{}: completed depth-4 search after an interruption at node {} panicked: {}", p.to_fen(), l, msg), case()),
        Ok((score, _)) => {
            if s.verif.tt_returned_deeper > 0 {
                st.bump("excluded_deeper_cached_result_reused");
                return;
            }
            st.bump("depth4_later_searches_judged");
            if class(score) != want {
                st.violation(
                    format!("C06:later-value:{}:4:node {}", p.to_fen(), l),
                    format!("{}: depth-4 search interrupted at node {}, then a completed fixed depth-4 search reports {} but the minimax value is {}", p.to_fen(), l, score, want.show()),
                    case(),
                );
            }
        }
    }
}

/// Thorough tier: depth-4 interruptions on few-men positions; the later search is ONE fixed-depth
/// search (hook) and runs in which a deeper cached result was returned are excluded (C05's rule).
fn c06_depth4(ctx: &Ctx) -> Stats {
    if ctx.quick() {
        return Stats::new();
    }
    let n_pos = ctx.budget(0, 64) as usize;
    parallel(ctx.workers, |w| {
        let mut st = Stats::new();
        let mut rng = Rng::new(ctx.seed, 6500 + w as u64);
        let mut rs = RefSearch::new(3_000_000, 20_000);
        for _ in 0..(n_pos / ctx.workers + 1) {
            if ctx.out_of_time() {
                break;
            }
            let p = gen::g_small(&mut rng, 7);
            let legal = p.legal_moves();
            if legal.len() < 2 {
                continue;
            }
            rs.reset();
            let want = match rs.value(&p, 4) {
                Ok(v) => v,
                Err(_) => {
                    st.bump("skipped_reference_over_budget");
                    continue;
                }
            };
            let b = eng::board_from_pos(&p);
            // size of the complete iterative search to depth 4
            let total = match engine_call(|| {
                let mut s = Searcher::new();
                s.verif_timer().hard_cap = Some(20_000_000);
                s.find_best_move(&b, 4, None);
                s.verif_nodes()
            }) {
                Ok(n) => n,
                Err(_) => continue,
            };
            for _ in 0..60 {
                let l = rng.range(1, total as i64) as u64;
                depth4_trial(&p, want, total, l, &mut st);
            }
        }
        st
    })
}

// ------------------------------------------------------------------------- C07: big searches part

fn big_case_json(p: &Pos, d: u8, kind: &str, extra: Vec<(&str, J)>) -> J {
    let mut v = vec![("kind", J::s(kind)), ("fen", J::s(p.to_fen())), ("depth", J::i(d as i64))];
    v.extend(extra);
    J::obj(v)
}

fn big_trial(p: &Pos, d: u8, l: u64, tag: &str, st: &mut Stats) {
    let _guard = crate::report::guard_case(
        HANG_CPU_LIMIT_S,
        true,
        format!("C07:no-return:{}:{}:node {}", p.to_fen(), d, l),
        format!("search of {} to depth {} with the deadline after {} nodes", p.to_fen(), d, l),
        big_case_json(p, d, "big", vec![("node_limit", J::i(l as i64))]),
    );
    let b = eng::board_from_pos(p);
    let mut s = Searcher::new();
    s.verif_timer().node_limit = Some(l);
    s.verif_timer().overrun_cap = Some(OVERSHOOT_BOUND);
    let r = {
        let s = &mut s;
        engine_call(|| {
            s.find_best_move(&b, d, None);
        })
    };
    match r {
        Err(msg) => {
            if msg.contains("after the deadline") {
                st.case(hash64(&(p.key(), d, l)), true);
                st.bump(tag);
                st.bump("deadline_ignored_cap_fired");
                st.violation(
                    format!("C07:ignored:{}:{}:node {}", p.to_fen(), d, l),
                    format!("search of {} to depth {} with the deadline after {} nodes expanded more than {} further nodes (stopped by the monitor's cap)", p.to_fen(), d, l, OVERSHOOT_BOUND),
                    big_case_json(p, d, "big", vec![("node_limit", J::i(l as i64))]),
                );
            } else {
                st.violation(format!("C07:panic:{}:{}:{}", p.to_fen(), d, l), format!("search of {} depth {} node limit {} panicked: {}", p.to_fen(), d, l, msg), big_case_json(p, d, "big", vec![("node_limit", J::i(l as i64))]));
            }
        }
        Ok(()) => {
            let nodes = s.verif_nodes();
            match s.verif_timer().expired_at.get() {
                None => {
                    st.case(hash64(&(p.key(), d, l)), false);
                    st.bump("deadline_after_search_end");
                }
                Some(at) => {
                    let over = nodes.saturating_sub(at);
                    st.case(hash64(&(p.key(), d, l)), true);
                    st.bump(tag);
                    st.bump("interrupted_searches");
                    st.maxi("max_nodes_after_deadline", over);
                    st.maxi("max_node_deadline_tried", l);
                    if over > OVERSHOOT_BOUND {
                        st.violation(
                            format!("C07:overshoot:{}:{}:node {}", p.to_fen(), d, l),
                            format!("search of {} to depth {} with the deadline after {} nodes expanded {} further nodes", p.to_fen(), d, l, over),
                            big_case_json(p, d, "big", vec![("node_limit", J::i(l as i64))]),
                        );
                    }
                }
            }
        }
    }
}

fn c07_big(ctx: &Ctx) -> Stats {
    let n = ctx.budget(480, 8000);
    parallel(ctx.workers, |w| {
        let mut st = Stats::new();
        let mut rng = Rng::new(ctx.seed, 7000 + w as u64);
        for i in 0..(n / ctx.workers as u64 + 1) {
            if i >= 4 && ctx.past(0.85) {
                break;
            }
            let l = match rng.below(4) {
                0 => rng.range(1, 200),
                1 => rng.range(200, 5000),
                2 => rng.range(5000, 60_000),
                _ => rng.range(60_000, 300_000),
            } as u64;
            if i % 2 == 0 {
                let p = gen::g_explode(&mut rng);
                let d = 1 + rng.below(2) as u8;
                st.sample_tagged("explode", || big_case_json(&p, d, "big", vec![("node_limit", J::i(l as i64))]));
                big_trial(&p, d, l, "explosive_quiescence_trials", &mut st);
            } else {
                let p = gen::g_game_pos(&mut rng);
                if p.legal_moves().is_empty() {
                    continue;
                }
                let d = 4 + rng.below(2) as u8;
                st.sample_tagged("middlegame", || big_case_json(&p, d, "big", vec![("node_limit", J::i(l as i64))]));
                big_trial(&p, d, l, "deep_middlegame_trials", &mut st);
            }
        }
        st
    })
}

/// Real wall-clock budgets, in-process: the hook records the node count at which the clock ran out
/// (checked at every node) and the nodes expanded after that.
fn wall_trial(p: &Pos, budget_us: u64, st: &mut Stats) {
    let _guard = crate::report::guard_case(
        HANG_CPU_LIMIT_S,
        true,
        format!("C07:no-return-wall:{}:{}", p.to_fen(), budget_us),
        format!("search of {} with a wall-clock budget of {} us", p.to_fen(), budget_us),
        big_case_json(p, 64, "wall", vec![("budget_us", J::i(budget_us as i64))]),
    );
    let b = eng::board_from_pos(p);
    let mut s = Searcher::new();
    s.verif_timer().overrun_cap = Some(OVERSHOOT_BOUND);
    let r = {
        let s = &mut s;
        engine_call(|| {
            s.find_best_move(&b, 64, Some(Duration::from_micros(budget_us)));
        })
    };
    st.case(hash64(&(p.key(), budget_us)), true);
    st.bump("wall_clock_trials");
    match r {
        Err(msg) => {
            if msg.contains("after the deadline") {
                st.bump("deadline_ignored_cap_fired");
                st.violation(
                    format!("C07:ignored-wall:{}:{}", p.to_fen(), budget_us),
                    format!("search of {} with a budget of {} us expanded more than {} nodes after the budget ran out (stopped by the monitor's cap)", p.to_fen(), budget_us, OVERSHOOT_BOUND),
                    big_case_json(p, 64, "wall", vec![("budget_us", J::i(budget_us as i64))]),
                );
            } else {
                st.violation(format!("C07:panic:{}:wall", p.to_fen()), format!("search of {} with budget {} us panicked: {}", p.to_fen(), budget_us, msg), big_case_json(p, 64, "wall", vec![("budget_us", J::i(budget_us as i64))]));
            }
        }
        Ok(()) => {
            let nodes = s.verif_nodes();
            let over = s.verif_timer().expired_at.get().map(|at| nodes.saturating_sub(at)).unwrap_or(0);
            st.maxi("max_nodes_after_deadline", over);
            st.maxi("max_nodes_at_wall_clock_expiry", nodes);
            if over > OVERSHOOT_BOUND {
                st.violation(
                    format!("C07:overshoot-wall:{}:{}", p.to_fen(), budget_us),
                    format!("search of {} with a budget of {} us expanded {} nodes after the budget ran out", p.to_fen(), budget_us, over),
                    big_case_json(p, 64, "wall", vec![("budget_us", J::i(budget_us as i64))]),
                );
            }
        }
    }
}

/// Wall-clock budget on an engine that has ALREADY searched in this "process": a long first search
/// (so any per-engine poll schedule or counter has run far ahead), then a search with a tiny
/// budget whose overshoot is measured in nodes by the hook.
fn wall_trial_reused(p: &Pos, first_ms: u64, budget_us: u64, st: &mut Stats) {
    let _guard = crate::report::guard_case(
        HANG_CPU_LIMIT_S,
        true,
        format!("C07:no-return-wall-reused:{}:{}:{}", p.to_fen(), first_ms, budget_us),
        format!("search of {} with a wall-clock budget of {} ms followed by one of {} us on the same engine", p.to_fen(), first_ms, budget_us),
        big_case_json(p, 64, "wall_reused", vec![("first_search_ms", J::i(first_ms as i64)), ("budget_us", J::i(budget_us as i64))]),
    );
    let b = eng::board_from_pos(p);
    let mut s = Searcher::new();
    // two kinds of earlier search: one that runs into its (short) deadline, and — first_ms of an hour
    // or more — a depth-limited one that ends LONG BEFORE its deadline (a game clock with hours on it):
    // whatever the engine tuned itself to during that search must not delay the next deadline
    let far = first_ms >= 3_600_000;
    let first_depth: u8 = if far { if p.piece_count() <= 12 { 7 } else { 5 } } else { 64 };
    let r0 = {
        let s = &mut s;
        s.verif_timer().hard_cap = Some(3_000_000);
        engine_call(|| {
            s.find_best_move(&b, first_depth, Some(Duration::from_millis(first_ms)));
        })
    };
    s.verif_timer().hard_cap = None;
    if r0.is_err() {
        return; // the cap on the earlier search fired (position too heavy for this trial)
    }
    let first_nodes = s.verif_nodes();
    if far {
        st.bump("wall_clock_trials_after_a_search_that_ended_long_before_its_deadline");
    }
    s.verif_timer().overrun_cap = Some(OVERSHOOT_BOUND);
    let r = {
        let s = &mut s;
        engine_call(|| {
            s.find_best_move(&b, 64, Some(Duration::from_micros(budget_us)));
        })
    };
    let case = || big_case_json(p, 64, "wall_reused", vec![("first_search_ms", J::i(first_ms as i64)), ("budget_us", J::i(budget_us as i64))]);
    st.case(hash64(&(p.key(), first_ms, budget_us)), true);
    st.bump("wall_clock_trials_on_an_engine_that_searched_before");
    st.maxi("max_nodes_of_the_earlier_search", first_nodes);
    match r {
        Err(msg) => {
            if msg.contains("after the deadline") {
                st.violation(
                    format!("C07:ignored-wall-reused:{}:{}:{}", p.to_fen(), first_ms, budget_us),
                    format!("after an earlier search of {} ms ({} nodes) on the same engine, a search of {} with a budget of {} us expanded more than {} nodes after the budget ran out (stopped by the monitor's cap)", first_ms, first_nodes, p.to_fen(), budget_us, OVERSHOOT_BOUND),
                    case(),
                );
            } else {
                st.violation(format!("C07:panic:{}:wall-reused", p.to_fen()), format!("search of {} panicked: {}", p.to_fen(), msg), case());
            }
        }
        Ok(()) => {
            let nodes = s.verif_nodes();
            let over = s.verif_timer().expired_at.get().map(|at| nodes.saturating_sub(at)).unwrap_or(0);
            st.maxi("max_nodes_after_deadline", over);
            if over > OVERSHOOT_BOUND {
                st.violation(
                    format!("C07:overshoot-wall-reused:{}:{}:{}", p.to_fen(), first_ms, budget_us),
                    format!("after an earlier search of {} ms on the same engine, a search of {} with a budget of {} us expanded {} nodes after the budget ran out", first_ms, p.to_fen(), budget_us, over),
                    case(),
                );
            }
        }
    }
}

fn c07_wall(ctx: &Ctx) -> Stats {
    let n = ctx.budget(320, 6000);
    parallel(ctx.workers, |w| {
        let mut st = Stats::new();
        let mut rng = Rng::new(ctx.seed, 7300 + w as u64);
        for i in 0..(n / ctx.workers as u64 + 1) {
            if i >= 4 && ctx.past(0.95) {
                break;
            }
            // promotion races, middlegames and sparse endgames (3..6 men: dozens of iterations fit
            // into a few milliseconds, so whatever runs between iterations is exercised too)
            let p = match i % 3 {
                0 => gen::g_explode(&mut rng),
                1 => gen::g_game_pos(&mut rng),
                _ => {
                    st.bump("wall_clock_trials_on_sparse_endgames");
                    {
                        let men = 3 + rng.below(4) as i64;
                        gen::g_small(&mut rng, men)
                    }
                }
            };
            if p.legal_moves().is_empty() {
                continue;
            }
            let us = match rng.below(4) {
                0 => 0,
                1 => rng.range(1, 300),
                2 => rng.range(300, 3000),
                _ => rng.range(3000, 20_000),
            } as u64;
            st.sample_tagged("wall", || big_case_json(&p, 64, "wall", vec![("budget_us", J::i(us as i64))]));
            wall_trial(&p, us, &mut st);
            if i % 4 == 1 {
                let first = *rng.pick(&[30u64, 80, 150, 7_200_000, 7_200_000]);
                wall_trial_reused(&p, first, us.min(2000), &mut st);
            }
        }
        st
    })
}

/// Replay of a black-box case: the recorded commands on a fresh process of the release binary.
/// C07: CPU time between the last go and its answer against the move time named in that command.
/// C06: the value printed by the last (depth-limited) go against the reference minimax value.
fn replay_blackbox(which: &str, c: &J, st: &mut Stats) {
    let cmds: Vec<String> = c.get("commands").and_then(|a| a.as_arr()).map(|a| a.iter().filter_map(|x| x.as_str().map(|s| s.to_string())).collect()).unwrap_or_default();
    let bin = std::path::PathBuf::from(std::env::var("FLOUNDER_BIN").unwrap_or_else(|_| format!("{}/target/engine/release/flounder", std::env::var("VERIF_DIR").unwrap_or_else(|_| "/verif".into()))));
    if cmds.is_empty() {
        st.inconclusive.push("replay: no commands in the case".into());
        return;
    }
    let mut eng = match bb::Engine::spawn(&bin) {
        Ok(e) => e,
        Err(m) => {
            st.inconclusive.push(format!("cannot start the engine binary: {}", m));
            return;
        }
    };
    st.case(hash64(&cmds), true);
    let last = cmds.len() - 1;
    let mut p: Option<Pos> = None;
    for (i, cmd) in cmds.iter().enumerate() {
        if cmd.starts_with("position") {
            p = crate::props::position::reference_of_command(cmd).map(|x| x.0);
            let _ = eng.send(cmd);
            continue;
        }
        let cpu0 = eng.cpu_ms();
        let out = eng.command(cmd, Duration::from_secs(if i == last { 30 } else { 120 }));
        let used = eng.cpu_ms().saturating_sub(cpu0);
        if i < last {
            if out.is_err() {
                st.inconclusive.push(format!("replay: '{}' was not answered", cmd));
                return;
            }
            continue;
        }
        let toks: Vec<&str> = cmd.split_whitespace().collect();
        let num = |name: &str| toks.iter().position(|t| *t == name).and_then(|k| toks.get(k + 1)).and_then(|v| v.parse::<u64>().ok());
        if which == "C07" {
            match num("movetime") {
                Some(t) => {
                    if used > t + 500 {
                        st.violation("C07:replay:cpu-over-budget", format!("'{}' consumed {} ms of CPU ({})", cmd, used, if out.is_ok() { "answered" } else { "no answer within the watchdog" }), c.clone());
                    }
                }
                None => st.inconclusive.push("replay: the last command names no move time".into()),
            }
        } else {
            let (Some(d), Some(p), Ok(lines)) = (num("depth"), p.as_ref(), out.as_ref()) else {
                st.inconclusive.push("replay: the last command is not an answered depth-limited go after a position command".into());
                return;
            };
            let mut rs = RefSearch::new(50_000_000, 5_000_000);
            match (info_depth_score(lines, d as u32), rs.value(p, d as u8)) {
                (Some(got), Ok(want)) => {
                    if class(got.clamp(i32::MIN as i64, i32::MAX as i64) as i32) != want {
                        st.violation("C06:replay:blackbox-later-value", format!("'{}' prints score {} for depth {} but the minimax value is {}", cmd, got, d, want.show()), c.clone());
                    }
                }
                (None, Ok(_)) => st.violation("C06:replay:blackbox-later-search-reports-nothing", format!("'{}' prints no value for depth {}: {:?}", cmd, d, lines), c.clone()),
                _ => st.inconclusive.push("replay: reference over budget".into()),
            }
        }
    }
    eng.quit();
}

fn replay_other(which: &str, c: &J, st: &mut Stats) {
    if c.str_of("kind") == "blackbox" {
        replay_blackbox(which, c, st);
        return;
    }
    let p = match Pos::from_fen(&c.str_of("fen")) {
        Ok(p) => p,
        Err(_) => {
            st.inconclusive.push("replay: bad fen".into());
            return;
        }
    };
    match c.str_of("kind").as_str() {
        "big" => big_trial(&p, c.int_of("depth") as u8, c.int_of("node_limit") as u64, "replay", st),
        "wall" => {
            for _ in 0..5 {
                wall_trial(&p, c.int_of("budget_us") as u64, st);
            }
        }
        "wall_reused" => {
            for _ in 0..3 {
                wall_trial_reused(&p, c.int_of("first_search_ms") as u64, c.int_of("budget_us") as u64, st);
            }
        }
        _ => st.inconclusive.push(format!("replay of black-box {} cases: re-run the check (the case is in the replay file)", which)),
    }
}

// --------------------------------------------------------------------------- black-box parts

/// C07 physical part: CPU time the real release binary spends between 'go movetime T' and its
/// 'bestmove'.
fn c07_blackbox(ctx: &Ctx) -> Stats {
    let n = ctx.budget(16, 160);
    let workers = ctx.workers.min(8);
    parallel(workers, |w| {
        let mut st = Stats::new();
        let mut rng = Rng::new(ctx.seed, 7600 + w as u64);
        let mut eng = match bb::Engine::spawn(&ctx.engine_bin) {
            Ok(e) => e,
            Err(e) => {
                st.inconclusive.push(format!("cannot start the engine binary: {}", e));
                return st;
            }
        };
        for i in 0..(n / workers as u64 + 1) {
            if i >= 2 && ctx.out_of_time() {
                break;
            }
            let p = match i % 3 {
                0 => gen::g_explode(&mut rng),
                1 => gen::g_game_pos(&mut rng),
                _ => {
                    st.bump("blackbox_go_movetime_on_sparse_endgames");
                    {
                        let men = 3 + rng.below(4) as i64;
                        gen::g_small(&mut rng, men)
                    }
                }
            };
            // once per worker: a budget of seconds on a tactical position (scores swing from one iteration to
            // the next there), so that a deadline pushed back by a fraction of the budget — a soft limit, a
            // "panic time" extension — exceeds the 500 ms slack
            let long_case = i == 1;
            let p = if long_case {
                match rng.below(4) {
                    0 => gen::g_battery_loaded(&mut rng),
                    1 => gen::g_underpromo(&mut rng),
                    2 => gen::g_stalemate_swindle(&mut rng),
                    _ => {
                        let men = 4 + rng.below(3) as i64;
                        gen::g_small(&mut rng, men)
                    }
                }
            } else {
                p
            };
            if p.legal_moves().is_empty() {
                continue;
            }
            let t = if long_case {
                st.bump("blackbox_go_movetime_of_seconds_on_tactical_positions");
                *rng.pick(&[2400u64, 3000])
            } else {
                *rng.pick(&[0u64, 1, 5, 20, 50, 100, 200])
            };
            if i % 3 == 0 {
                // a long search first (one that outlasts any earlier one in this process), so that a
                // poll schedule kept across searches has run far ahead of the next search
                // ... or a depth-limited search under a clock with hours on it, which ends long before
                // its deadline
                // (only where a depth-limited search is known to be short: not in promotion races)
                let depth_limited = i % 3 != 0 && rng.chance(1, 2);
                let warm = if depth_limited { format!("go depth {} wtime 7200000 btime 7200000 winc 0 binc 0", if p.piece_count() <= 12 { 8 } else { 5 }) } else { format!("go movetime {}", rng.pick(&[600u64, 900, 1200])) };
                let _ = eng.send(&format!("position fen {}", p.to_fen()));
                match eng.command(&warm, Duration::from_secs(60)) {
                    Ok(_) => {
                        st.bump("blackbox_short_go_after_a_long_search");
                        if depth_limited {
                            st.bump("blackbox_short_go_after_a_search_that_ended_long_before_its_deadline");
                        }
                    }
                    Err(_) => {
                        // the earlier search is still running (or the engine is gone): whatever is sent
                        // now would be measured together with it — start over with a fresh process
                        st.bump("blackbox_warm_up_search_not_finished_in_time");
                        eng = match bb::Engine::spawn(&ctx.engine_bin) {
                            Ok(e) => e,
                            Err(_) => break,
                        };
                        continue;
                    }
                }
            }
            // a third of the commands carry further standard go tokens next to the move time, as GUIs send
            // them (a node limit far beyond reach, moves to go): the time budget binds all the same
            let go = match rng.below(6) {
                0 => {
                    st.bump("blackbox_go_movetime_with_other_go_tokens");
                    format!("go nodes 4000000000 movetime {}", t)
                }
                1 => {
                    st.bump("blackbox_go_movetime_with_other_go_tokens");
                    format!("go movetime {} movestogo 25 nodes 3000000000", t)
                }
                _ => format!("go movetime {}", t),
            };
            let script = vec![format!("position fen {}", p.to_fen()), go];
            let case = J::obj(vec![("kind", J::s("blackbox")), ("commands", J::arr_s(script.clone()))]);
            if eng.send(&script[0]).is_err() {
                st.inconclusive.push("engine process died".into());
                break;
            }
            let cpu0 = eng.cpu_ms();
            let out = eng.command(&script[1], Duration::from_secs(15));
            let cpu1 = eng.cpu_ms();
            st.case(hash64(&(p.key(), t, 77u8)), true);
            st.bump("blackbox_go_movetime");
            st.sample_tagged("blackbox", || case.clone());
            match out {
                Ok(lines) => {
                    let used = cpu1.saturating_sub(cpu0);
                    st.maxi("max_cpu_ms_over_budget", used.saturating_sub(t));
                    if !lines.iter().any(|l| l.starts_with("bestmove")) {
                        st.bump("blackbox_no_bestmove_seen");
                    }
                    if used > t + 500 {
                        st.violation(
                            format!("C07:cpu-over-budget:{}:{}", p.to_fen(), t),
                            format!("'go movetime {}' on {} consumed {} ms of CPU before answering", t, p.to_fen(), used),
                            case.clone(),
                        );
                    }
                }
                Err(bb::Fail::Timeout) => {
                    // no answer 15 s after a budget of at most 200 ms: decide on the CPU consumed
                    let used = eng.cpu_ms().saturating_sub(cpu0);
                    if used > t + 500 {
                        st.violation(
                            format!("C07:cpu-over-budget:{}:{}", p.to_fen(), t),
                            format!("'go movetime {}' on {} had not answered after consuming {} ms of CPU", t, p.to_fen(), used),
                            case.clone(),
                        );
                    } else {
                        st.inconclusive.push(format!("no answer to 'go movetime {}' within the watchdog, but only {} ms CPU consumed (machine too loaded to decide)", t, used));
                    }
                    eng = match bb::Engine::spawn(&ctx.engine_bin) {
                        Ok(e) => e,
                        Err(_) => break,
                    };
                }
                Err(bb::Fail::Died(status)) => {
                    st.bump("blackbox_engine_died");
                    st.inconclusive.push(format!("engine process ended during 'go movetime {}' ({}) — C03/C16 judge that", t, status));
                    eng = match bb::Engine::spawn(&ctx.engine_bin) {
                        Ok(e) => e,
                        Err(_) => break,
                    };
                }
            }
        }
        eng.quit();
        st
    })
}

fn info_depth_score(lines: &[String], depth: u32) -> Option<i64> {
    for l in lines {
        let t: Vec<&str> = l.split_whitespace().collect();
        if t.first() == Some(&"info") {
            let d = t.iter().position(|x| *x == "depth").and_then(|i| t.get(i + 1)).and_then(|x| x.parse::<u32>().ok());
            let s = t.iter().position(|x| *x == "cp").and_then(|i| t.get(i + 1)).and_then(|x| x.parse::<i64>().ok());
            if d == Some(depth) {
                return s;
            }
        }
    }
    None
}

fn last_info_depth(lines: &[String]) -> u32 {
    let mut best = 0;
    for l in lines {
        let t: Vec<&str> = l.split_whitespace().collect();
        if t.first() == Some(&"info") {
            if let Some(d) = t.iter().position(|x| *x == "depth").and_then(|i| t.get(i + 1)).and_then(|x| x.parse::<u32>().ok()) {
                best = best.max(d);
            }
        }
    }
    best
}

/// C06 on the real wall-clock path (hooks-off release binary): a search cut off by 'go movetime t'
/// followed by 'go depth j+1' must print, for depth j+1, the score a fresh process prints.
fn c06_blackbox(ctx: &Ctx) -> Stats {
    let n = ctx.budget(64, 2000);
    let workers = ctx.workers;
    parallel(workers, |w| {
        let mut st = Stats::new();
        let mut rng = Rng::new(ctx.seed, 6800 + w as u64);
        let mut rs = RefSearch::new(if ctx.quick() { 100_000 } else { 1_500_000 }, 20_000);
        for k in 0..(n / workers as u64 + 1) {
            if k >= 1 && ctx.out_of_time() {
                break;
            }
            let p = gen::g_game_pos(&mut rng);
            if p.legal_moves().len() < 2 {
                continue;
            }
            let t = rng.below(4);
            let mut eng = match bb::Engine::spawn(&ctx.engine_bin) {
                Ok(e) => e,
                Err(e) => {
                    st.inconclusive.push(format!("cannot start the engine binary: {}", e));
                    return st;
                }
            };
            let pos_cmd = format!("position fen {}", p.to_fen());
            let _ = eng.send(&pos_cmd);
            let first = match eng.command(&format!("go movetime {}", t), Duration::from_secs(20)) {
                Ok(l) => l,
                Err(_) => {
                    st.bump("blackbox_first_go_failed");
                    continue;
                }
            };
            let j = last_info_depth(&first);
            let later = j + 1;
            if later > 3 {
                st.bump("blackbox_skipped_completed_depth_3_or_more");
                eng.quit();
                continue;
            }
            let second = match eng.command(&format!("go depth {}", later), Duration::from_secs(60)) {
                Ok(l) => l,
                Err(_) => {
                    st.bump("blackbox_second_go_failed");
                    continue;
                }
            };
            eng.quit();
            let script = vec![pos_cmd.clone(), format!("go movetime {}", t), format!("go depth {}", later)];
            let got = match info_depth_score(&second, later) {
                Some(s) => s,
                None => {
                    // the later search has no clock and the position has legal moves: it must complete
                    // the iteration it was asked for and report its value. (A fresh process does — that
                    // is checked first, so a changed output format cannot be mistaken for this.)
                    st.bump("blackbox_no_info_line");
                    let fresh_reports = bb::Engine::spawn(&ctx.engine_bin).ok().map(|mut e| {
                        let _ = e.send(&pos_cmd);
                        let l = e.command(&format!("go depth {}", later), Duration::from_secs(60)).unwrap_or_default();
                        e.quit();
                        info_depth_score(&l, later).is_some()
                    });
                    if fresh_reports == Some(true) {
                        st.case(hash64(&(p.key(), t, later)), true);
                        st.violation(
                            format!("C06:blackbox-later-search-reports-nothing:{}:{}:{}", p.to_fen(), t, later),
                            format!("{}: after 'go movetime {}' (completed depth {}), 'go depth {}' prints no value for depth {} (its output: {:?}) although a fresh process given the same position and the same go does", p.to_fen(), t, j, later, later, second),
                            J::obj(vec![("kind", J::s("blackbox")), ("commands", J::arr_s(script.clone())), ("completed_depth_of_first_go", J::i(j as i64))]),
                        );
                    }
                    continue;
                }
            };
            rs.reset();
            let want = match rs.value(&p, later as u8) {
                Ok(v) => v,
                Err(_) => {
                    st.bump("skipped_reference_over_budget");
                    continue;
                }
            };
            let case = J::obj(vec![("kind", J::s("blackbox")), ("commands", J::arr_s(script.clone())), ("completed_depth_of_first_go", J::i(j as i64))]);
            st.case(hash64(&(p.key(), t, later)), true);
            st.bump("blackbox_interrupt_then_search");
            st.bump(&format!("blackbox_first_go_completed_depth_{}", j));
            st.sample_tagged("blackbox", || case.clone());
            if class(got.clamp(i32::MIN as i64, i32::MAX as i64) as i32) != want {
                st.violation(
                    format!("C06:blackbox-later-value:{}:{}:{}", p.to_fen(), t, later),
                    format!("{}: after 'go movetime {}' (completed depth {}), 'go depth {}' prints score {} for depth {} but the minimax value is {}", p.to_fen(), t, j, later, got, later, want.show()),
                    case,
                );
            }
        }
        st
    })
}
