//! Black-box monitors on the real release binary (hooks off):
//! C03 — every go is answered by exactly one legal bestmove;
//! C13 — same commands give the same answers; ucinewgame forgets everything;
//! C16 — handshake, tolerance of unknown input, clean termination (strace counts the reads of an
//!       ended input, so "spins at end of input" is decided on events, not on a timeout).
use crate::bb;
use crate::board::Board;
use crate::eng;
use crate::gen;
use crate::json::J;
use crate::oracle::{Mv, Pos};
use crate::props::position::reference_of_command;
use crate::report::{engine_call, finalize, parallel, Ctx, Spec, Stats};
use crate::rng::{hash64, Rng};
use crate::search::Searcher;
use std::path::PathBuf;
use std::time::Duration;

// ------------------------------------------------------------------------------------------ C03

struct GameState {
    /// the position command prefix ("position startpos" / "position fen ...") and moves so far
    head: String,
    moves: Vec<String>,
    cur: Pos,
}

impl GameState {
    fn command(&self) -> String {
        if self.moves.is_empty() {
            self.head.clone()
        } else {
            format!("{} moves {}", self.head, self.moves.join(" "))
        }
    }
}

fn special_position(rng: &mut Rng) -> Pos {
    // mates, stalemates, single-legal-move positions and tactical studies
    const SPECIAL: &[&str] = &[
        "7k/5Q2/6K1/8/8/8/8/8 b - - 0 1",
        "k7/2Q5/1K6/8/8/8/8/8 b - - 0 1",
        "r1bqkb1r/pppp1Qpp/2n2n2/4p3/2B1P3/8/PPPP1PPP/RNB1K1NR b KQkq - 0 4",
        "k7/8/8/8/8/8/r7/K1r5 w - - 0 1",
        "7k/8/5K2/6Q1/8/8/8/8 b - - 0 1",
        "8/8/8/8/8/5k2/5p2/5K2 w - - 0 1",
        "5k2/5P2/5K2/8/8/8/8/8 b - - 0 1",
        "7k/6R1/5K2/8/8/8/8/8 b - - 0 1",
        "k7/1R6/2K5/8/8/8/8/8 b - - 0 1",
        "6k1/5ppp/8/8/8/8/8/R3K3 w Q - 0 1",
        "4k3/8/8/8/8/5n2/8/4K2r w - - 0 1",
        "8/P7/8/8/8/8/7p/K6k w - - 0 1",
        "r3k2r/1P4P1/8/8/8/8/1p4p1/R3K2R w KQkq - 0 1",
    ];
    match rng.below(5) {
        0 | 1 => Pos::from_fen(*rng.pick(SPECIAL)).unwrap(),
        2 => gen::g_promo(rng),
        3 => gen::g_ep(rng),
        _ => gen::g_castle(rng),
    }
}

/// A valid position that differs from `p` in exactly one component (ep target, one castling right,
/// side to move, move counters, one piece removed / relocated): a hash or cache that conflates the
/// two would make an answer computed for one surface for the other.
fn sibling_of(p: &Pos, rng: &mut Rng) -> Option<Pos> {
    use crate::oracle::{kind, K, NO_EP};
    for _ in 0..12 {
        let mut q = p.clone();
        match rng.below(7) {
            0 if p.ep != NO_EP => q.ep = NO_EP,
            1 if p.castle != 0 => {
                let bits: Vec<u8> = (0..4).map(|i| 1u8 << i).filter(|b| p.castle & b != 0).collect();
                q.castle &= !*rng.pick(&bits);
            }
            2 if p.castle != 0 => q.castle = 0,
            3 => {
                q.stm ^= 1;
                q.ep = NO_EP;
            }
            4 => {
                q.half = *rng.pick(&[0u32, 7, 99, 100]);
                q.full = *rng.pick(&[1u32, 77, 300]);
            }
            5 => {
                let occupied: Vec<usize> = (0..64).filter(|&s| p.sq[s] != 0 && kind(p.sq[s]) != K).collect();
                if occupied.is_empty() {
                    continue;
                }
                q.sq[*rng.pick(&occupied)] = 0;
                q.ep = NO_EP;
            }
            6 => {
                let occupied: Vec<usize> = (0..64).filter(|&s| p.sq[s] != 0 && kind(p.sq[s]) != K).collect();
                if occupied.is_empty() {
                    continue;
                }
                let from = *rng.pick(&occupied);
                let to = rng.below(64) as usize;
                if q.sq[to] != 0 {
                    continue;
                }
                q.sq[to] = q.sq[from];
                q.sq[from] = 0;
                q.ep = NO_EP;
            }
            _ => continue,
        }
        // rights must stay consistent with the placement
        if q.validity().is_ok() && q.key() != p.key() || (q.validity().is_ok() && (q.half != p.half || q.full != p.full)) {
            return Some(q);
        }
    }
    None
}

fn new_game(rng: &mut Rng) -> GameState {
    if rng.chance(1, 30) {
        // a very long game: GUIs send the whole move list every time
        let n = rng.range(300, 1400) as usize;
        let (ps, ms) = gen::long_game(&Pos::start(), rng, n);
        return GameState { head: "position startpos".into(), moves: ms.iter().map(|m| m.uci()).collect(), cur: ps.last().unwrap().clone() };
    }
    match rng.below(10) {
        0..=3 => {
            let n = rng.range(0, 60) as usize;
            let (ps, ms) = gen::playout(&Pos::start(), rng, n);
            GameState { head: "position startpos".into(), moves: ms.iter().map(|m| m.uci()).collect(), cur: ps.last().unwrap().clone() }
        }
        4..=5 => {
            let p = special_position(rng);
            GameState { head: format!("position fen {}", p.to_fen()), moves: vec![], cur: p }
        }
        6 => {
            let p = gen::g_small(rng, 7);
            GameState { head: format!("position fen {}", p.to_fen()), moves: vec![], cur: p }
        }
        _ => {
            let mut p = gen::g_game_pos(rng);
            p.full = *rng.pick(&[1u32, 40, 255, 256, 300, 1200]);
            p.half = *rng.pick(&[0u32, 3, 50, 99, 100]);
            let n = rng.range(0, 20) as usize;
            let (ps, ms) = gen::playout(&p, rng, n);
            GameState { head: format!("position fen {}", p.to_fen()), moves: ms.iter().map(|m| m.uci()).collect(), cur: ps.last().unwrap().clone() }
        }
    }
}

fn go_command(p: &Pos, rng: &mut Rng, thorough: bool) -> String {
    let men = p.piece_count();
    let heavy = p.sq.iter().filter(|&&q| q != 0 && crate::oracle::kind(q) == crate::oracle::Q).count() > 2 || p.sq.iter().enumerate().any(|(s, &q)| q != 0 && crate::oracle::kind(q) == crate::oracle::P && (s / 8 == 1 || s / 8 == 6));
    let clocks = |rng: &mut Rng| {
        let times: &[u64] = if thorough { &[0, 1, 100, 4000, 5000, 5001, 5100, 6000, 7000, 20000] } else { &[0, 1, 100, 4000, 5000, 5001, 5100, 6000] };
        let incs: &[u64] = &[0, 0, 10, 100];
        let mut pairs = vec![format!("wtime {}", rng.pick(times)), format!("btime {}", rng.pick(times)), format!("winc {}", rng.pick(incs)), format!("binc {}", rng.pick(incs))];
        rng.shuffle(&mut pairs);
        let mut s = format!("go {}", pairs.join(" "));
        if rng.chance(1, 5) {
            s.push_str(&format!(" movestogo {}", rng.range(1, 40)));
        }
        s
    };
    match rng.below(10) {
        0..=3 if !heavy => {
            let max = if men <= 6 { 5 } else if men <= 14 { 4 } else { 3 };
            format!("go depth {}", rng.range(1, max))
        }
        0..=3 => format!("go movetime {}", rng.pick(&[0u64, 1, 2, 5, 20])),
        4..=5 => format!("go movetime {}", rng.pick(&[0u64, 0, 1, 2, 5, 20, 50])),
        // further standard go tokens next to the move time (a node limit far beyond reach, moves to go)
        6 => match rng.below(3) {
            0 => format!("go nodes 4000000000 movetime {}", rng.pick(&[0u64, 1, 5, 20, 50])),
            1 => format!("go movetime {} movestogo 30", rng.pick(&[0u64, 1, 5, 20, 50])),
            _ => format!("go movestogo 12 movetime {} nodes 2500000000", rng.pick(&[0u64, 1, 5, 20, 50])),
        },
        _ => clocks(rng),
    }
}

fn c03_session(ctx: &Ctx, rng: &mut Rng, st: &mut Stats, session_no: u64) {
    let mut eng = match bb::Engine::spawn(&ctx.engine_bin) {
        Ok(e) => e,
        Err(e) => {
            st.inconclusive.push(format!("cannot start the engine binary: {}", e));
            return;
        }
    };
    let mut script: Vec<String> = vec![];
    let mut games: Vec<GameState> = vec![new_game(rng)];
    let mut cur = 0usize;
    let n_go = rng.range(5, 40);
    let mut searched_before = false;
    for _ in 0..n_go {
        if ctx.out_of_time() {
            break;
        }
        // what to do before this go
        match rng.below(10) {
            0..=4 => {} // same game: continue (self-play: the engine's previous answer was appended)
            5..=6 => {
                games.push(new_game(rng));
                cur = games.len() - 1;
                st.bump("jumps_to_an_unrelated_game");
            }
            7 => {
                if rng.chance(1, 2) {
                    cur = rng.below(games.len() as u64) as usize;
                    st.bump("returns_to_an_earlier_game");
                } else if let Some(sib) = sibling_of(&games[cur].cur, rng) {
                    // a position differing from the one just searched in a single component
                    games.push(GameState { head: format!("position fen {}", sib.to_fen()), moves: vec![], cur: sib });
                    cur = games.len() - 1;
                    st.bump("jumps_to_a_sibling_position");
                }
            }
            8 => {
                script.push("ucinewgame".into());
                // half of the time no isready follows ucinewgame: the next command reaches the engine at once
                // (whether an isready then follows the position command is decided independently below)
                let r = if rng.chance(1, 2) {
                    st.bump("ucinewgame_sent_without_isready");
                    eng.send("ucinewgame").map(|_| vec![])
                } else {
                    eng.command("ucinewgame", Duration::from_secs(30))
                };
                if r.is_err() {
                    break;
                }
                searched_before = false;
                st.bump("ucinewgame_in_session");
            }
            _ => {
                // let the game advance by a random legal move (the opponent's reply)
                let g = &mut games[cur];
                let legal = g.cur.legal_moves();
                if !legal.is_empty() {
                    let m = gen::pick_move(&g.cur, &legal, rng);
                    g.cur = g.cur.make(&m);
                    g.moves.push(m.uci());
                }
            }
        }
        let g = &games[cur];
        let pos_cmd = g.command();
        let legal: Vec<String> = g.cur.legal_moves().iter().map(|m| m.uci()).collect();
        let go = go_command(&g.cur, rng, !ctx.quick());
        script.push(pos_cmd.clone());
        script.push(go.clone());
        let case = || J::obj(vec![("kind", J::s("session")), ("commands", J::arr_s(script.clone())), ("position", J::s(g.cur.to_fen()))]);
        st.case(hash64(&(session_no, script.len(), pos_cmd.clone(), go.clone())), searched_before);
        st.bump("go_commands");
        if searched_before {
            st.bump("go_after_earlier_searches_in_process");
        }
        if go.contains("depth") {
            st.bump("go_depth");
        } else if go.contains("movetime") {
            st.bump("go_movetime");
            if go.ends_with(" 0") {
                st.bump("go_movetime_0");
            }
        } else {
            st.bump("go_clock");
        }
        if legal.is_empty() {
            st.bump("go_on_position_without_legal_move");
        } else if legal.len() == 1 {
            st.bump("go_on_position_with_single_legal_move");
        }
        st.sample_tagged(if go.contains("depth") { "depth" } else if go.contains("movetime") { "movetime" } else { "clock" }, || J::obj(vec![("position_command", J::s(pos_cmd.clone())), ("go", J::s(go.clone()))]));
        // a third of the time position and go are sent back to back (no isready in between)
        let r = if rng.chance(1, 3) {
            st.bump("go_sent_right_after_position_without_isready");
            eng.send(&pos_cmd).and_then(|_| eng.command(&go, Duration::from_secs(120)))
        } else {
            eng.command(&pos_cmd, Duration::from_secs(30)).and_then(|pre| {
                if !pre.is_empty() {
                    st.bump("output_after_position_command");
                }
                eng.command(&go, Duration::from_secs(120))
            })
        };
        searched_before = true;
        match r {
            Ok(lines) => {
                let bms: Vec<&String> = lines.iter().filter(|l| l.starts_with("bestmove")).collect();
                let ans = bms.first().and_then(|l| l.split_whitespace().nth(1)).unwrap_or("").to_string();
                if bms.len() != 1 {
                    st.violation(
                        format!("C03:bestmove-count:{}:{}:{}", bms.len(), pos_cmd, go),
                        format!("'{}' on {} was answered by {} bestmove lines", go, g.cur.to_fen(), bms.len()),
                        case(),
                    );
                } else if legal.is_empty() {
                    if ans != "0000" {
                        st.violation(format!("C03:move-in-terminal:{}:{}", pos_cmd, go), format!("'{}' on {} (no legal move) answered '{}' instead of 0000", go, g.cur.to_fen(), ans), case());
                    }
                } else if ans == "0000" {
                    st.violation(
                        format!("C03:bestmove-0000-with-legal-moves:{}:{}", pos_cmd, go),
                        format!("'{}' on {} answered 'bestmove 0000' although {} moves are legal", go, g.cur.to_fen(), legal.len()),
                        case(),
                    );
                } else if !legal.contains(&ans) {
                    st.violation(
                        format!("C03:illegal:{}:{}", pos_cmd, go),
                        format!("'{}' on {} answered '{}', which is not a legal move there", go, g.cur.to_fen(), ans),
                        case(),
                    );
                }
                // self-play: the answer is played on this game
                let g = &mut games[cur];
                if let Some(m) = g.cur.find_uci(&ans) {
                    g.cur = g.cur.make(&m);
                    g.moves.push(ans);
                }
            }
            Err(bb::Fail::Died(status)) => {
                st.violation(
                    format!("C03:died:{}:{}", pos_cmd, go),
                    format!("the engine process ended ({}) instead of answering '{}' on {}", status, go, g.cur.to_fen()),
                    case(),
                );
                return;
            }
            Err(bb::Fail::Timeout) => {
                if eng.idle_after_timeout() {
                    st.violation(
                        format!("C03:no-answer-and-idle:{}:{}", pos_cmd, go),
                        format!("'{}' on {} was not answered by a bestmove line within 120 s and the engine is idle (asleep waiting for input, no CPU used): its search is over and no answer line has come out", go, g.cur.to_fen()),
                        case(),
                    );
                    return;
                }
                st.inconclusive.push(format!("no answer to '{}' on {} within 120 s (unbounded liveness cannot be decided by a finite run)", go, g.cur.to_fen()));
                return;
            }
        }
    }
    st.bump("sessions");
    eng.quit();
}

/// Dedicated sibling-pair session: search P (where an en-passant capture, a castle or a capture of
/// a piece that the sibling lacks is attractive), then search its sibling no deeper on the same
/// process; every answer must be legal in the position it was asked about.
fn c03_sibling_session(ctx: &Ctx, rng: &mut Rng, st: &mut Stats) {
    let base = match rng.below(4) {
        0 | 1 => gen::g_ep(rng),
        2 => gen::g_castle(rng),
        _ => gen::g_small(rng, 8),
    };
    let sib = match sibling_of(&base, rng) {
        Some(x) => x,
        None => return,
    };
    let mut eng = match bb::Engine::spawn(&ctx.engine_bin) {
        Ok(e) => e,
        Err(e) => {
            st.inconclusive.push(format!("cannot start the engine binary: {}", e));
            return;
        }
    };
    let men = base.piece_count();
    let d1 = if men <= 8 { rng.range(3, 6) } else if men <= 16 { rng.range(3, 4) } else { 3 };
    let order: Vec<(&Pos, i64)> = if rng.chance(1, 2) { vec![(&base, d1), (&sib, rng.range(1, d1)), (&base, rng.range(1, d1))] } else { vec![(&sib, d1), (&base, rng.range(1, d1)), (&sib, rng.range(1, d1))] };
    let mut script: Vec<String> = vec![];
    for (i, (p, d)) in order.iter().enumerate() {
        let pos_cmd = format!("position fen {}", p.to_fen());
        let go = format!("go depth {}", d);
        script.push(pos_cmd.clone());
        script.push(go.clone());
        let legal: Vec<String> = p.legal_moves().iter().map(|m| m.uci()).collect();
        let case = J::obj(vec![("kind", J::s("session")), ("commands", J::arr_s(script.clone())), ("position", J::s(p.to_fen()))]);
        st.case(hash64(&(script.clone(), 33u8)), i > 0);
        st.bump("go_commands");
        st.bump("go_depth");
        if i > 0 {
            st.bump("go_after_earlier_searches_in_process");
            st.bump("sibling_pairs_searched");
        }
        match eng.command(&pos_cmd, Duration::from_secs(30)).and_then(|_| eng.command(&go, Duration::from_secs(120))) {
            Ok(lines) => {
                let bms: Vec<&String> = lines.iter().filter(|l| l.starts_with("bestmove")).collect();
                let ans = bms.first().and_then(|l| l.split_whitespace().nth(1)).unwrap_or("").to_string();
                let ok = bms.len() == 1 && if legal.is_empty() { ans == "0000" } else { legal.contains(&ans) };
                if !ok {
                    st.violation(
                        format!("C03:illegal-after-sibling:{}:{}", script.join(";"), ans),
                        format!("'{}' on {} answered '{}' ({} bestmove lines), which is not a legal move there; earlier in the same process the sibling position {} was searched", go, p.to_fen(), ans, bms.len(), order[0].0.to_fen()),
                        case,
                    );
                    break;
                }
            }
            Err(bb::Fail::Died(status)) => {
                st.violation(format!("C03:died:{}:{}", pos_cmd, go), format!("the engine process ended ({}) instead of answering '{}' on {}", status, go, p.to_fen()), case);
                return;
            }
            Err(bb::Fail::Timeout) => {
                if eng.idle_after_timeout() {
                    st.violation(format!("C03:no-answer-and-idle:{}:{}", pos_cmd, go), format!("'{}' on {} was not answered by a bestmove line within 120 s and the engine is idle (asleep waiting for input, no CPU used): its search is over and no answer line has come out", go, p.to_fen()), case);
                    return;
                }
                st.inconclusive.push(format!("no answer to '{}' on {} within 120 s", go, p.to_fen()));
                return;
            }
        }
    }
    eng.quit();
}


/// Maximum-depth sessions: on fully blocked positions a time-limited go with a depth limit at or
/// above the engine's maximum (64) really reaches that depth; the answer is judged like any other.
fn c03_maxdepth_session(ctx: &Ctx, rng: &mut Rng, st: &mut Stats) {
    let mut eng = match bb::Engine::spawn(&ctx.engine_bin) {
        Ok(e) => e,
        Err(e) => {
            st.inconclusive.push(format!("cannot start the engine binary: {}", e));
            return;
        }
    };
    let mut script: Vec<String> = vec![];
    for k in 0..2 {
        let p = if k == 0 { gen::g_blocked(rng) } else { Pos::from_fen("8/8/4k3/8/8/4K3/8/8 w - - 0 1").unwrap() };
        let d = *rng.pick(&[64u32, 64, 65, 100, 255, 63]);
        // the go returns as soon as the depth limit is reached, so a generous budget costs nothing then
        let t = if k == 1 { 5000 } else if ctx.quick() { 4000 } else { 8000 };
        let pos_cmd = format!("position fen {}", p.to_fen());
        let go = format!("go depth {} movetime {}", d, t);
        script.push(pos_cmd.clone());
        script.push(go.clone());
        let legal: Vec<String> = p.legal_moves().iter().map(|m| m.uci()).collect();
        let case = J::obj(vec![("kind", J::s("session")), ("commands", J::arr_s(script.clone())), ("position", J::s(p.to_fen()))]);
        st.case(hash64(&(script.clone(), 64u8)), true);
        st.bump("go_commands");
        st.bump("go_with_depth_limit_at_or_above_the_maximum");
        st.sample_tagged("maxdepth", || J::obj(vec![("position_command", J::s(pos_cmd.clone())), ("go", J::s(go.clone()))]));
        match eng.command(&pos_cmd, Duration::from_secs(30)).and_then(|_| eng.command(&go, Duration::from_secs(120))) {
            Ok(lines) => {
                let deepest = lines.iter().filter(|l| l.starts_with("info")).filter_map(|l| { let t: Vec<&str> = l.split_whitespace().collect(); t.iter().position(|x| *x == "depth").and_then(|i| t.get(i + 1)).and_then(|x| x.parse::<u64>().ok()) }).max().unwrap_or(0);
                st.maxi("max_iteration_completed_by_a_go", deepest);
                if deepest >= 64 {
                    st.bump("searches_that_completed_iteration_64");
                    if k == 0 {
                        st.bump("searches_that_completed_iteration_64_behind_pawn_walls");
                    }
                }
                let bms: Vec<&String> = lines.iter().filter(|l| l.starts_with("bestmove")).collect();
                let ans = bms.first().and_then(|l| l.split_whitespace().nth(1)).unwrap_or("").to_string();
                let ok = bms.len() == 1 && if legal.is_empty() { ans == "0000" } else { legal.contains(&ans) };
                if !ok {
                    st.violation(format!("C03:illegal-at-max-depth:{}:{}", pos_cmd, go), format!("'{}' on {} answered '{}' ({} bestmove lines), which is not a legal move there", go, p.to_fen(), ans, bms.len()), case);
                    break;
                }
            }
            Err(bb::Fail::Died(status)) => {
                st.violation(format!("C03:died:{}:{}", pos_cmd, go), format!("the engine process ended ({}) instead of answering '{}' on {}", status, go, p.to_fen()), case);
                return;
            }
            Err(bb::Fail::Timeout) => {
                if eng.idle_after_timeout() {
                    st.violation(format!("C03:no-answer-and-idle:{}:{}", pos_cmd, go), format!("'{}' on {} was not answered by a bestmove line within 120 s and the engine is idle (asleep waiting for input, no CPU used): its search is over and no answer line has come out", go, p.to_fen()), case);
                    return;
                }
                st.inconclusive.push(format!("no answer to '{}' on {} within 120 s", go, p.to_fen()));
                return;
            }
        }
    }
    eng.quit();
}

/// In-process part (hook build): the deadline of a `go` is placed, deterministically, after every
/// node count L (or at the n-th deadline poll) of a depth-limited search, on ONE engine that keeps
/// its tables across all these interrupted searches; the answer recorded by the hook must be a
/// legal move each time (none exactly when the position has no legal move).
fn c03_inprocess(ctx: &Ctx) -> Stats {
    use crate::uci::Flounder;
    let n_pos = ctx.budget(48, 1200);
    let max_points = ctx.budget(200, 1500);
    parallel(ctx.workers, |w| {
        let mut st = Stats::new();
        let mut rng = Rng::new(ctx.seed, 3500 + w as u64);
        for i in 0..(n_pos / ctx.workers as u64 + 1) {
            if i >= 2 && ctx.out_of_time() {
                break;
            }
            let p = match i % 5 {
                0 => special_position(&mut rng),
                1 => gen::g_small(&mut rng, 8),
                2 => gen::g_explode(&mut rng),
                _ => gen::g_game_pos(&mut rng),
            };
            let legal: Vec<String> = p.legal_moves().iter().map(|m| m.uci()).collect();
            let d = if p.piece_count() > 16 { 2 } else { 3 };
            let pos_cmd = format!("position fen {}", p.to_fen());
            let go = format!("go depth {}", d);
            let mut e = Flounder::new();
            let ok = {
                let e = &mut e;
                engine_call(|| {
                    e.verif_handle_command(&pos_cmd);
                    e.verif_searcher().verif_timer().hard_cap = Some(3_000_000);
                    e.verif_handle_command(&go);
                    (e.verif_searcher().verif_nodes(), e.verif_searcher().verif_polls())
                })
            };
            let (total, total_polls) = match ok {
                Ok(x) => x,
                Err(_) => {
                    st.bump("inprocess_skipped_search_too_large");
                    continue;
                }
            };
            let mut e = Flounder::new();
            {
                let e = &mut e;
                if engine_call(|| e.verif_handle_command(&pos_cmd)).is_err() {
                    continue;
                }
            }
            let mut points: Vec<(bool, u64)> = vec![];
            if total <= max_points {
                points.extend((1..=total + 1).map(|l| (false, l)));
            } else {
                for k in 0..max_points {
                    let lo = 1 + total * k / max_points;
                    let hi = (total * (k + 1) / max_points).max(lo);
                    points.push((false, rng.range(lo as i64, hi as i64) as u64));
                }
            }
            for _ in 0..(max_points / 8) {
                points.push((true, rng.range(1, total_polls.max(1) as i64) as u64));
            }
            rng.shuffle(&mut points);
            for (by_poll, l) in points {
                let r = {
                    let e = &mut e;
                    engine_call(|| {
                        {
                            let t = e.verif_searcher().verif_timer();
                            t.node_limit = if by_poll { None } else { Some(l) };
                            t.poll_limit = if by_poll { Some(l) } else { None };
                            t.hard_cap = Some(total * 4 + 100_000);
                        }
                        e.verif.last_bestmove = None;
                        e.verif_handle_command(&go);
                        e.verif.last_bestmove.clone()
                    })
                };
                let case = || J::obj(vec![("kind", J::s("inprocess")), ("fen", J::s(p.to_fen())), ("go", J::s(go.clone())), ("deadline_kind", J::s(if by_poll { "poll" } else { "node" })), ("deadline_at", J::i(l as i64))]);
                st.case(hash64(&(p.key(), d, by_poll, l)), l <= total);
                st.bump("inprocess_go_with_deterministic_deadline");
                st.sample_tagged("inprocess", case);
                match r {
                    Err(msg) => {
                        st.violation(format!("C03:inprocess-panic:{}:{}:{}", p.to_fen(), by_poll, l), format!("'{}' on {} with the deadline at {} {} panicked: {}", go, p.to_fen(), if by_poll { "poll" } else { "node" }, l, msg), case());
                        break;
                    }
                    Ok(None) => {
                        st.violation(format!("C03:inprocess-no-answer:{}:{}:{}", p.to_fen(), by_poll, l), format!("'{}' on {} with the deadline at {} {} produced no bestmove", go, p.to_fen(), if by_poll { "poll" } else { "node" }, l), case());
                    }
                    Ok(Some(ans)) => {
                        let good = match &ans {
                            None => legal.is_empty(),
                            Some(m) => legal.contains(m),
                        };
                        if !good {
                            st.violation(
                                format!("C03:inprocess-answer:{}:{}:{}", p.to_fen(), by_poll, l),
                                format!("'{}' on {} with the deadline at {} {} answered {:?}; legal moves: {}", go, p.to_fen(), if by_poll { "poll" } else { "node" }, l, ans, legal.len()),
                                case(),
                            );
                        }
                    }
                }
            }
            st.bump("inprocess_positions");
        }
        st
    })
}

pub fn run_c03(ctx: &Ctx) -> i32 {
    let spec = Spec {
        level: "exploration",
        rule: "a case is one 'go' inside a session on ONE process of the real release binary: sessions of 5..40 gos mix self-play continuation (the engine's own answers are appended to the move list), jumps to unrelated games and back without ucinewgame, jumps to sibling positions (equal to one just searched except for the ep target, one castling right, the side to move, the counters or one piece) and dedicated sibling-pair sessions (deep search of P, then shallower search of its sibling), occasional ucinewgame, mates / stalemates / single-move positions and promotion / en-passant / castling studies, and parameter sets depth 1..5, movetime {0,1,2,5,20,50}, clocks around the 5 s reserve with increments in shuffled token order; maximum-depth sessions send 'go depth {63,64,65,100,255} movetime T' on fully blocked pawn-wall positions and on bare kings, where iterative deepening really reaches iteration 64 within the budget. Each go must be answered by exactly one bestmove line naming a legal move of the position last set (0000 exactly when there is none); a process that dies is a violation, one that does not answer within 120 s is inconclusive. In-process part (hook build of the same sources): on one engine that keeps its tables, 'go depth d' is interrupted by a deterministic deadline after every node count (small searches) or a stratified sample, and at sampled deadline polls; the answer recorded by the hook must be legal every time. Distinct by (session, index, commands); non-trivial when earlier searches ran in the same process",
        assumptions: vec!["the reference rules implementation is correct (perft self-test at every run)".into(), "'go infinite' and parameterless 'go' are not sent (the engine has no stop command to end them)".into()],
        required: if ctx.replay.is_some() { vec![] } else { vec!["go_depth", "go_movetime", "go_movetime_0", "go_clock", "go_on_position_without_legal_move", "go_on_position_with_single_legal_move", "go_after_earlier_searches_in_process", "jumps_to_an_unrelated_game", "returns_to_an_earlier_game", "jumps_to_a_sibling_position", "sibling_pairs_searched", "ucinewgame_in_session", "inprocess_go_with_deterministic_deadline", "go_with_depth_limit_at_or_above_the_maximum", "searches_that_completed_iteration_64"] },
        exhaustive: false,
        extra: vec![],
    };
    if let Some(r) = ctx.replay.as_ref() {
        let mut st = Stats::new();
        if let Some(c) = r.get("case") {
            if c.str_of("kind") == "inprocess" {
                replay_inprocess(c, &mut st);
            } else {
                replay_session(ctx, c, &mut st, "C03");
            }
        }
        return finalize(ctx, spec, st);
    }
    let n = ctx.budget(320, 6000);
    let total = parallel(ctx.workers, |w| {
        let mut st = Stats::new();
        let mut rng = Rng::new(ctx.seed, 3000 + w as u64);
        // the two commands of the original finding first, in every run
        if w == 0 {
            for go in ["go movetime 0", "go wtime 4000 btime 4000", "go wtime 0 btime 0 winc 0 binc 0"] {
                if let Ok(mut e) = bb::Engine::spawn(&ctx.engine_bin) {
                    let _ = e.command("position startpos", Duration::from_secs(30));
                    let script = vec!["position startpos".to_string(), go.to_string()];
                    st.case(hash64(&go), true);
                    st.bump("go_commands");
                    match e.command(go, Duration::from_secs(120)) {
                        Ok(lines) => {
                            let ans = lines.iter().find(|l| l.starts_with("bestmove")).and_then(|l| l.split_whitespace().nth(1)).unwrap_or("").to_string();
                            if Pos::start().find_uci(&ans).is_none() {
                                st.violation(
                                    format!("C03:bestmove-0000-with-legal-moves:position startpos:{}", go),
                                    format!("'{}' on the start position answered '{}'", go, ans),
                                    J::obj(vec![("kind", J::s("session")), ("commands", J::arr_s(script.clone())), ("position", J::s(Pos::start().to_fen()))]),
                                );
                            }
                        }
                        Err(_) => st.inconclusive.push(format!("'{}' on the start position was not answered", go)),
                    }
                    e.quit();
                }
            }
        }
        for _ in 0..(if ctx.quick() { 1 } else { 4 }) {
            c03_maxdepth_session(ctx, &mut rng, &mut st);
        }
        for i in 0..(n / ctx.workers as u64 + 1) {
            if i >= 1 && ctx.past(0.6) {
                break;
            }
            c03_session(ctx, &mut rng, &mut st, (w as u64) << 32 | i);
            for _ in 0..3 {
                c03_sibling_session(ctx, &mut rng, &mut st);
            }
        }
        st
    });
    let mut total = total;
    total.merge(c03_inprocess(ctx));
    finalize(ctx, spec, total)
}

fn replay_inprocess(c: &J, st: &mut Stats) {
    use crate::uci::Flounder;
    let p = match Pos::from_fen(&c.str_of("fen")) {
        Ok(p) => p,
        Err(_) => {
            st.inconclusive.push("replay: bad fen".into());
            return;
        }
    };
    let legal: Vec<String> = p.legal_moves().iter().map(|m| m.uci()).collect();
    let go = c.str_of("go");
    let l = c.int_of("deadline_at") as u64;
    let by_poll = c.str_of("deadline_kind") == "poll";
    let mut e = Flounder::new();
    st.case(1, true);
    st.case(2, true);
    let r = {
        let e = &mut e;
        engine_call(|| {
            e.verif_handle_command(&format!("position fen {}", p.to_fen()));
            let t = e.verif_searcher().verif_timer();
            t.node_limit = if by_poll { None } else { Some(l) };
            t.poll_limit = if by_poll { Some(l) } else { None };
            e.verif_handle_command(&go);
            e.verif.last_bestmove.clone()
        })
    };
    match r {
        Ok(Some(Some(m))) if legal.contains(&m) => {}
        Ok(Some(None)) if legal.is_empty() => {}
        other => st.violation("C03:replay:inprocess", format!("answer {:?} on {} (fresh engine; the original run had searched the position before)", other, p.to_fen()), c.clone()),
    }
}

/// Replays a recorded session script against the real binary, judging every go with the C03 oracle.
fn replay_session(ctx: &Ctx, c: &J, st: &mut Stats, id: &str) {
    let cmds: Vec<String> = c.get("commands").and_then(|a| a.as_arr()).map(|a| a.iter().filter_map(|x| x.as_str().map(|s| s.to_string())).collect()).unwrap_or_default();
    let mut e = match bb::Engine::spawn(&ctx.engine_bin) {
        Ok(e) => e,
        Err(m) => {
            st.inconclusive.push(m);
            return;
        }
    };
    let mut cur = Pos::start();
    for cmd in cmds.iter() {
        st.case(hash64(cmd), true);
        if cmd.starts_with("position") {
            if let Some((p, _)) = reference_of_command(cmd) {
                cur = p;
            }
        }
        if cmd == "ucinewgame" {
            cur = Pos::start();
        }
        match e.command(cmd, Duration::from_secs(120)) {
            Ok(lines) => {
                if cmd.starts_with("go") {
                    let legal: Vec<String> = cur.legal_moves().iter().map(|m| m.uci()).collect();
                    let bms: Vec<&String> = lines.iter().filter(|l| l.starts_with("bestmove")).collect();
                    let ans = bms.first().and_then(|l| l.split_whitespace().nth(1)).unwrap_or("").to_string();
                    let ok = bms.len() == 1 && if legal.is_empty() { ans == "0000" } else { legal.contains(&ans) };
                    if !ok {
                        st.violation(format!("{}:replay", id), format!("'{}' on {} answered {:?}", cmd, cur.to_fen(), bms), c.clone());
                    }
                }
            }
            Err(bb::Fail::Died(s)) => {
                st.violation(format!("{}:replay:died", id), format!("engine ended ({}) on '{}'", s, cmd), c.clone());
                return;
            }
            Err(bb::Fail::Timeout) => {
                st.inconclusive.push("watchdog".into());
                return;
            }
        }
    }
}

// ------------------------------------------------------------------------------------------ C13

fn strip_volatile(line: &str) -> String {
    let t: Vec<&str> = line.split_whitespace().collect();
    let mut out = vec![];
    let mut i = 0;
    while i < t.len() {
        if (t[i] == "time" || t[i] == "nps") && t.first() == Some(&"info") {
            i += 2;
            continue;
        }
        out.push(t[i]);
        i += 1;
    }
    out.join(" ")
}

/// Run a script in a fresh process; transcript = for each command the normalised lines it printed.
fn transcript(ctx: &Ctx, script: &[String], from: usize) -> Result<Vec<String>, String> {
    let mut e = bb::Engine::spawn(&ctx.engine_bin)?;
    let mut out = vec![];
    // Half of the scripts (chosen by their content) are sent the way a GUI in a hurry does: no
    // isready after commands that have no answer of their own (position, ucinewgame), so that
    // 'ucinewgame / position / go' reach the engine back to back.
    let sparse = hash64(&script.to_vec()) % 2 == 0;
    for (i, cmd) in script.iter().enumerate() {
        if sparse && (cmd.starts_with("position") || cmd == "ucinewgame") {
            if e.send(cmd).is_err() {
                return Err(format!("died on '{}'", cmd));
            }
            if i >= from {
                out.push(format!("> {}", cmd));
            }
            continue;
        }
        match e.command(cmd, Duration::from_secs(300)) {
            Ok(lines) => {
                if i >= from {
                    out.push(format!("> {}", cmd));
                    out.extend(lines.iter().map(|l| strip_volatile(l)));
                }
            }
            Err(bb::Fail::Died(s)) => return Err(format!("died: {} on '{}'", s, cmd)),
            Err(bb::Fail::Timeout) => return Err(format!("timeout on '{}'", cmd)),
        }
    }
    e.quit();
    Ok(out)
}

/// Like `transcript`, but every depth-limited go is interrupted by an injected delay: the process is stopped
/// (SIGSTOP) a few milliseconds after the command was sent and continued `pause_ms` later.
fn transcript_paused(ctx: &Ctx, script: &[String], pause_ms: u64) -> Result<Vec<String>, String> {
    let mut e = bb::Engine::spawn(&ctx.engine_bin)?;
    let mut out = vec![];
    for cmd in script.iter() {
        let depth_only = cmd.starts_with("go depth") && cmd.split_whitespace().count() == 3;
        let r = if depth_only { e.command_with_pause(cmd, 3, pause_ms, Duration::from_secs(300)) } else { e.command(cmd, Duration::from_secs(300)) };
        match r {
            Ok(lines) => {
                out.push(format!("> {}", cmd));
                out.extend(lines.iter().map(|l| strip_volatile(l)));
            }
            Err(bb::Fail::Died(s)) => return Err(format!("died: {} on '{}'", s, cmd)),
            Err(bb::Fail::Timeout) => return Err(format!("timeout on '{}'", cmd)),
        }
    }
    e.quit();
    Ok(out)
}

/// The script after `prefix ; ucinewgame` failed with a dead engine while a fresh process ran the same
/// suffix to the end. When the engine is demonstrably alive right after `prefix ; ucinewgame` (a fresh
/// process given exactly that answers isready), the death belongs to what came after ucinewgame: the engine
/// does not behave like a freshly started process there. Otherwise the death is the prefix's (C03/C16 judge
/// that) and nothing is concluded here.
fn died_only_after_ucinewgame(ctx: &Ctx, full: &[String], from: usize, err: &str) -> bool {
    if !err.starts_with("died") {
        return false;
    }
    let mut head: Vec<String> = full[..from].to_vec();
    head.push("isready".into());
    transcript(ctx, &head, 0).is_ok()
}

fn depth_script(rng: &mut Rng, thorough: bool, allow_bare_go: bool) -> Vec<String> {
    let mut s = vec![];
    let n = rng.range(2, if thorough { 7 } else { 4 });
    for k in 0..n {
        let bare = allow_bare_go && k == 0 && rng.chance(1, 3);
        let mut men = 32;
        if !bare {
            if rng.chance(1, 4) {
                // a game that shuffles pieces out and back: positions on record two or three times, so
                // the repetition rule takes part in the searches that are compared
                let g = crate::props::position::repeat_game(rng);
                men = g.current().piece_count();
                s.push(g.command(None));
            } else if rng.chance(1, 2) {
                let m = rng.range(0, 30) as usize;
                let (ps, ms) = gen::playout(&Pos::start(), rng, m);
                men = ps.last().unwrap().piece_count();
                let mv: Vec<String> = ms.iter().map(|m| m.uci()).collect();
                s.push(if mv.is_empty() { "position startpos".to_string() } else { format!("position startpos moves {}", mv.join(" ")) });
            } else {
                let p = gen::g_game_pos(rng);
                men = p.piece_count();
                s.push(format!("position fen {}", p.to_fen()));
            }
        }
        let max = if thorough { if men <= 12 { 6 } else { 5 } } else if men <= 12 { 5 } else { 4 };
        s.push(format!("go depth {}", rng.range(3, max)));
    }
    s
}

fn prefix_script(rng: &mut Rng) -> Vec<String> {
    let mut s = vec![];
    for _ in 0..rng.range(1, 4) {
        match rng.below(6) {
            4 | 5 => {
                // a game from the start position that shuffles pieces out and back, so positions a
                // few plies from the start are on record two or three times; sometimes searched
                let g = crate::props::position::repeat_game_from(rng, Some(true));
                s.push(g.command(None));
                if rng.chance(1, 2) {
                    s.push(format!("go depth {}", rng.range(1, 3)));
                }
            }
            0 => {
                let m = rng.range(10, 120) as usize;
                let (_, ms) = gen::playout(&Pos::start(), rng, m);
                let mv: Vec<String> = ms.iter().map(|m| m.uci()).collect();
                s.push(format!("position startpos moves {}", mv.join(" ")));
                s.push(format!("go depth {}", rng.range(1, 3)));
            }
            1 => {
                let p = gen::g_game_pos(rng);
                s.push(format!("position fen {}", p.to_fen()));
                s.push(format!("go movetime {}", rng.pick(&[0u64, 5, 20, 50])));
            }
            2 => {
                let p = gen::g_game_pos(rng);
                s.push(format!("position fen {}", p.to_fen()));
                s.push(format!("go depth {}", rng.range(2, 4)));
            }
            _ => {
                s.push("position startpos moves e2e4 e7e5 g1f3".into());
                s.push("go wtime 5200 btime 5200 winc 0 binc 0".into());
            }
        }
    }
    s
}

fn first_difference(a: &[String], b: &[String]) -> String {
    for i in 0..a.len().max(b.len()) {
        let x = a.get(i).map(|s| s.as_str()).unwrap_or("<nothing>");
        let y = b.get(i).map(|s| s.as_str()).unwrap_or("<nothing>");
        if x != y {
            return format!("line {}: '{}' vs '{}'", i + 1, x, y);
        }
    }
    "no difference".into()
}

pub fn run_c13(ctx: &Ctx) -> i32 {
    let spec = Spec {
        level: "exploration",
        rule: "cases: (a) a depth-limited script (2..7 position/go depth 3..6 commands on middlegames) run in N separate processes of the real binary — each draws its own random hash keys — must give byte-identical transcripts once the time and nps fields are removed; (b) in-process, K fresh searchers (K key sets) must agree on (score, move, node count) for each (position, depth); (c) the transcript of a script after 'prefix; ucinewgame' (prefix: searches, time-limited searches, long position histories, games from the start position that repeat positions two or three times; the script often starts with a bare go, which searches the start position) must equal its transcript in a fresh process; (c') after 1..24 quick searches and ucinewgame, a whole game searched move after move (12..20 searches at depth 4..5) must equal the same game in a fresh process; an engine that dies in the compared part while a fresh process runs it to the end (and that demonstrably survives 'prefix; ucinewgame') differs from a fresh process too; (c'') a search, 255..1024 ucinewgame commands in a row, the same search again — as in a fresh process (one-byte counters and generation tags wrap at 256); (d) injected delays: a depth-limited script (optionally with a depth-1 go that carries a move time or a clock first) is run once normally and once with the process stopped (SIGSTOP) for 2.3..2.7 s in the middle of every 'go depth N' — the transcripts must be identical. Distinct by script / (position, depth); all non-trivial (every case compares at least two executions)",
        assumptions: vec!["key sets not drawn in this run are not covered".into(), "only depth-limited searches are compared (time-limited ones legitimately depend on the machine)".into()],
        required: if ctx.replay.is_some() { vec![] } else { vec!["scripts_compared_across_processes", "process_pairs_compared", "key_set_groups_compared", "ucinewgame_scripts_compared", "ucinewgame_scripts_starting_with_bare_go", "ucinewgame_scripts_resuming_the_previous_game_line", "soak_scripts_compared", "ucinewgame_then_a_whole_game_compared", "scripts_compared_with_and_without_injected_delays", "scripts_with_hundreds_of_new_games_in_a_row_compared", "paused_scripts_after_a_go_that_carried_a_clock_and_ended_at_once"] },
        exhaustive: false,
        extra: vec![],
    };
    if let Some(r) = ctx.replay.as_ref() {
        let mut st = Stats::new();
        if let Some(c) = r.get("case") {
            let cmds: Vec<String> = c.get("commands").and_then(|a| a.as_arr()).map(|a| a.iter().filter_map(|x| x.as_str().map(|s| s.to_string())).collect()).unwrap_or_default();
            if c.str_of("kind") == "paused" {
                st.case(1, true);
                match (transcript_paused(ctx, &cmds, 0), transcript_paused(ctx, &cmds, 2700)) {
                    (Ok(a), Ok(b)) => {
                        if a != b {
                            st.violation("C13:replay", format!("output differs when the process is stopped for 2700 ms in the middle of each 'go depth': {}", first_difference(&a, &b)), c.clone());
                        }
                    }
                    _ => st.inconclusive.push("replay: a process failed".into()),
                }
                return finalize(ctx, spec, st);
            }
            let from = c.int_of("compare_from") as usize;
            let fresh: Vec<String> = cmds[from.min(cmds.len())..].iter().filter(|c| *c != "ucinewgame" || from == 0).cloned().collect();
            st.case(1, true);
            st.case(2, true);
            match (transcript(ctx, &cmds, if from > 0 { from + 0 } else { 0 }), transcript(ctx, &fresh, 0)) {
                (Ok(a), Ok(b)) => {
                    let a: Vec<String> = a.into_iter().filter(|l| l != "> ucinewgame").collect();
                    if a != b {
                        st.violation("C13:replay", format!("transcripts differ: {}", first_difference(&a, &b)), c.clone());
                    }
                }
                (Err(e), Ok(_)) if from > 0 && died_only_after_ucinewgame(ctx, &cmds, from, &e) => {
                    st.violation("C13:replay", format!("after the prefix and ucinewgame (which the engine survives) the script ends with a dead engine ({}) while a fresh process runs it to the end", e), c.clone());
                }
                (Ok(_), Err(e)) | (Err(e), Ok(_)) if from == 0 && e.starts_with("died") => {
                    st.violation("C13:replay", format!("the same script runs to the end in one process and ends with a dead engine in another ({})", e), c.clone());
                }
                _ => st.inconclusive.push("replay: a process failed".into()),
            }
        }
        return finalize(ctx, spec, st);
    }
    let n_scripts = ctx.budget(48, 400);
    let procs = if ctx.quick() { 4 } else { 8 };
    let n_new = ctx.budget(48, 400);
    let n_keys = ctx.budget(96, 1500);
    let k_sets = if ctx.quick() { 16 } else { 48 };
    let total = parallel(ctx.workers, |w| {
        let mut st = Stats::new();
        let mut rng = Rng::new(ctx.seed, 1300 + w as u64);
        // (a) across processes
        for k in 0..(n_scripts / ctx.workers as u64 + 1) {
            if k >= 1 && ctx.past(0.4) {
                break;
            }
            let script = depth_script(&mut rng, !ctx.quick(), true);
            let case = J::obj(vec![("kind", J::s("processes")), ("commands", J::arr_s(script.clone())), ("compare_from", J::i(0))]);
            st.case(hash64(&script), true);
            st.sample_tagged("processes", || case.clone());
            let first = match transcript(ctx, &script, 0) {
                Ok(t) => t,
                Err(e) => {
                    st.inconclusive.push(format!("C13 script failed: {}", e));
                    continue;
                }
            };
            st.bump("scripts_compared_across_processes");
            st.add("info_lines_compared", first.iter().filter(|l| l.starts_with("info")).count() as u64);
            for _ in 1..procs {
                match transcript(ctx, &script, 0) {
                    Ok(t) => {
                        st.bump("process_pairs_compared");
                        if t != first {
                            st.violation(
                                format!("C13:processes:{}", script.join(";")),
                                format!("the same script gives different output in two processes: {} [script: {}]", first_difference(&first, &t), script.join(" ; ")),
                                case.clone(),
                            );
                            break;
                        }
                    }
                    Err(e) if e.starts_with("died") => {
                        st.violation(
                            format!("C13:processes-died:{}", script.join(";")),
                            format!("the same script runs to the end in one process and ends with a dead engine in another ({}) [script: {}]", e, script.join(" ; ")),
                            case.clone(),
                        );
                        break;
                    }
                    Err(e) => st.inconclusive.push(format!("C13 script failed: {}", e)),
                }
            }
        }
        // (a') soak: one long game searched move after move in ONE process without ucinewgame, so the
        // tables fill up (a size cap or an eviction policy that depends on the hash keys shows in the
        // node counts), compared across processes
        let soaks = if ctx.quick() { if w < 4 { 1 } else { 0 } } else if w < 12 { 1 } else { 0 };
        for _ in 0..soaks {
            let plies = if ctx.quick() { 80 } else { 130 };
            let (ps, ms) = gen::playout(&Pos::start(), &mut rng, 160);
            let mut script = vec![];
            let from = rng.range(4, 12) as usize;
            for i in (from..ms.len().min(from + plies)).step_by(1) {
                if ps[i].legal_moves().is_empty() {
                    break;
                }
                let mv: Vec<String> = ms[..i].iter().map(|m| m.uci()).collect();
                script.push(format!("position startpos moves {}", mv.join(" ")));
                let men = ps[i].piece_count();
                script.push(format!("go depth {}", if ctx.quick() { if men <= 22 { 6 } else { 5 } } else if men <= 10 { 7 } else if men <= 20 { 6 } else { 5 }));
            }
            if script.is_empty() {
                continue;
            }
            let case = J::obj(vec![("kind", J::s("processes")), ("commands", J::arr_s(script.clone())), ("compare_from", J::i(0))]);
            st.case(hash64(&script), true);
            match (transcript(ctx, &script, 0), transcript(ctx, &script, 0)) {
                (Ok(a), Ok(b)) => {
                    st.bump("soak_scripts_compared");
                    st.add("soak_searches_in_one_process", (script.len() / 2) as u64);
                    let nodes: u64 = a.iter().filter(|l| l.starts_with("info")).filter_map(|l| { let t: Vec<&str> = l.split_whitespace().collect(); t.iter().position(|x| *x == "nodes").and_then(|i| t.get(i + 1)).and_then(|x| x.parse::<u64>().ok()) }).max().unwrap_or(0);
                    st.maxi("max_nodes_of_one_soak_search", nodes);
                    if a != b {
                        st.violation(
                            format!("C13:soak:{}", hash64(&script)),
                            format!("a game searched move after move in one process ({} searches) gives different output in two processes: {}", script.len() / 2, first_difference(&a, &b)),
                            case,
                        );
                    }
                }
                (Err(e), _) | (_, Err(e)) => st.inconclusive.push(format!("C13 soak script failed: {}", e)),
            }
        }
        // (c) ucinewgame
        for k in 0..(n_new / ctx.workers as u64 + 1) {
            if k >= 1 && ctx.past(0.75) {
                break;
            }
            let prefix = prefix_script(&mut rng);
            let mut suffix = depth_script(&mut rng, false, true);
            if rng.chance(1, 3) && !suffix[0].starts_with("go") {
                // start with a bare go (ucinewgame has reset the board to the start position)
                suffix.insert(0, format!("go depth {}", rng.range(3, 5)));
            } else if rng.chance(1, 2) {
                // the new game begins like the old one: the same position command as before
                // ucinewgame, the same one extended by a few moves, or cut short (GUIs replay the same
                // opening lines game after game)
                if let Some(prev) = prefix.iter().rev().find(|c| c.starts_with("position")) {
                    if let Some((p, _)) = reference_of_command(prev) {
                        let mut cmd = prev.clone();
                        let mut cur = p;
                        match rng.below(3) {
                            0 => {}
                            1 => {
                                for i in 0..rng.range(1, 4) {
                                    let l = cur.legal_moves();
                                    if l.is_empty() {
                                        break;
                                    }
                                    let m = *rng.pick(&l);
                                    if i == 0 && !cmd.contains(" moves ") {
                                        cmd.push_str(" moves");
                                    }
                                    cmd.push(' ');
                                    cmd.push_str(&m.uci());
                                    cur = cur.make(&m);
                                }
                            }
                            _ => {
                                if let Some(i) = cmd.find(" moves ") {
                                    let toks: Vec<&str> = cmd[i + 7..].split_whitespace().collect();
                                    let keep = rng.below(toks.len() as u64 + 1) as usize;
                                    cmd = if keep == 0 { cmd[..i].to_string() } else { format!("{} moves {}", &cmd[..i], toks[..keep].join(" ")) };
                                    if let Some((q, _)) = reference_of_command(&cmd) {
                                        cur = q;
                                    }
                                }
                            }
                        }
                        if !cur.legal_moves().is_empty() {
                            let d = if cur.piece_count() <= 12 { rng.range(3, 5) } else { rng.range(3, 4) };
                            suffix = vec![cmd, format!("go depth {}", d)];
                            st.bump("ucinewgame_scripts_resuming_the_previous_game_line");
                        }
                    }
                }
            }
            let mut full = prefix.clone();
            full.push("ucinewgame".into());
            let from = full.len();
            full.extend(suffix.iter().cloned());
            let case = J::obj(vec![("kind", J::s("ucinewgame")), ("commands", J::arr_s(full.clone())), ("compare_from", J::i(from as i64))]);
            st.case(hash64(&full), true);
            st.sample_tagged("ucinewgame", || case.clone());
            match (transcript(ctx, &full, from), transcript(ctx, &suffix, 0)) {
                (Ok(a), Ok(b)) => {
                    st.bump("ucinewgame_scripts_compared");
                    if suffix[0].starts_with("go") {
                        st.bump("ucinewgame_scripts_starting_with_bare_go");
                    }
                    if a != b {
                        st.violation(
                            format!("C13:ucinewgame:{}", full.join(";")),
                            format!("after '{} ; ucinewgame' the script '{}' does not behave as in a fresh process: {}", prefix.join(" ; "), suffix.join(" ; "), first_difference(&a, &b)),
                            case,
                        );
                    }
                }
                (Err(e), Ok(_)) if died_only_after_ucinewgame(ctx, &full, from, &e) => {
                    st.bump("ucinewgame_scripts_compared");
                    st.violation(
                        format!("C13:ucinewgame-died:{}", full.join(";")),
                        format!("after '{} ; ucinewgame' (which the engine survives) the script '{}' ends with a dead engine ({}) while a fresh process runs it to the end", prefix.join(" ; "), suffix.join(" ; "), e),
                        case,
                    );
                }
                (Err(e), _) | (_, Err(e)) => st.inconclusive.push(format!("C13 script failed: {}", e)),
            }
        }
        // (c') a whole game after ucinewgame: k quick searches (k = 1..24, so any per-process counter
        // is left in an arbitrary phase), ucinewgame, then one game searched move after move for a
        // dozen moves — state that survives ucinewgame may take several searches to show
        for _ in 0..(if ctx.quick() { 1 } else { 6 }) {
            let k = rng.range(1, 24) as usize;
            let mut full: Vec<String> = vec![];
            let (_, pm) = gen::playout(&Pos::start(), &mut rng, k + 2);
            for i in 0..k.min(pm.len()) {
                let mv: Vec<String> = pm[..=i].iter().map(|m| m.uci()).collect();
                full.push(format!("position startpos moves {}", mv.join(" ")));
                full.push(format!("go depth {}", 1 + i % 2));
            }
            full.push("ucinewgame".into());
            let from = full.len();
            let (ps, ms) = gen::playout(&Pos::start(), &mut rng, 40);
            let start_at = rng.range(0, 6) as usize;
            let mut suffix = vec![];
            for i in start_at..ms.len().min(start_at + if ctx.quick() { 12 } else { 20 }) {
                if ps[i].legal_moves().is_empty() {
                    break;
                }
                let mv: Vec<String> = ms[..i].iter().map(|m| m.uci()).collect();
                suffix.push(if mv.is_empty() { "position startpos".to_string() } else { format!("position startpos moves {}", mv.join(" ")) });
                suffix.push(format!("go depth {}", if ps[i].piece_count() <= 24 { 5 } else { 4 }));
            }
            if suffix.is_empty() {
                continue;
            }
            full.extend(suffix.iter().cloned());
            let case = J::obj(vec![("kind", J::s("ucinewgame")), ("commands", J::arr_s(full.clone())), ("compare_from", J::i(from as i64))]);
            st.case(hash64(&full), true);
            st.sample_tagged("ucinewgame_game", || case.clone());
            match (transcript(ctx, &full, from), transcript(ctx, &suffix, 0)) {
                (Ok(a), Ok(b)) => {
                    st.bump("ucinewgame_then_a_whole_game_compared");
                    st.add("searches_before_ucinewgame_in_those", k as u64);
                    if a != b {
                        st.violation(
                            format!("C13:ucinewgame-game:{}", hash64(&full)),
                            format!("after {} searches and ucinewgame, a game searched move after move ({} searches) does not behave as in a fresh process: {}", k, suffix.len() / 2, first_difference(&a, &b)),
                            case,
                        );
                    }
                }
                (Err(e), Ok(_)) if died_only_after_ucinewgame(ctx, &full, from, &e) => {
                    st.bump("ucinewgame_then_a_whole_game_compared");
                    st.violation(
                        format!("C13:ucinewgame-game-died:{}", hash64(&full)),
                        format!("after {} searches and ucinewgame (which the engine survives), a game searched move after move ends with a dead engine ({}) while a fresh process runs it to the end", k, e),
                        case,
                    );
                }
                (Err(e), _) | (_, Err(e)) => st.inconclusive.push(format!("C13 script failed: {}", e)),
            }
        }
        // (c'') many new games in a row: a search, then N x ucinewgame (N at and around 256 and 512 — counters
        // and generation tags of one byte wrap there), then the same search again: as in a fresh process
        if w < (if ctx.quick() { 4 } else { 12 }) {
            let n_new = [256usize, 512, 255, 257, 1024, 768, 300, 2][w % 8];
            let p = gen::g_game_pos(&mut rng);
            if !p.legal_moves().is_empty() {
                let pos = format!("position fen {}", p.to_fen());
                let d = if p.piece_count() <= 12 { 5 } else { 4 };
                let mut full = vec![pos.clone(), format!("go depth {}", d)];
                for _ in 0..n_new {
                    full.push("ucinewgame".into());
                }
                let from = full.len();
                let suffix = vec![pos.clone(), format!("go depth {}", d)];
                full.extend(suffix.iter().cloned());
                let case = J::obj(vec![("kind", J::s("ucinewgame")), ("commands", J::arr_s(full.clone())), ("compare_from", J::i(from as i64))]);
                st.case(hash64(&(full.clone(), 0xc2u8)), true);
                st.sample_tagged("many_new_games", || J::obj(vec![("kind", J::s("ucinewgame")), ("position", J::s(pos.clone())), ("ucinewgame_commands_in_a_row", J::i(n_new as i64))]));
                match (transcript(ctx, &full, from), transcript(ctx, &suffix, 0)) {
                    (Ok(a), Ok(b)) => {
                        st.bump("scripts_with_hundreds_of_new_games_in_a_row_compared");
                        st.maxi("max_ucinewgame_commands_in_a_row", n_new as u64);
                        if a != b {
                            st.violation(
                                format!("C13:many-newgames:{}:{}", n_new, pos),
                                format!("after '{} ; go depth {}' and {} x ucinewgame, the same search does not behave as in a fresh process: {}", pos, d, n_new, first_difference(&a, &b)),
                                case,
                            );
                        }
                    }
                    (Err(e), _) | (_, Err(e)) => st.inconclusive.push(format!("C13 script failed: {}", e)),
                }
            }
        }
        // (d) injected delays: the output of depth-limited searches must not depend on how long they take.
        // The script runs once normally and once with the process stopped for a while in the middle of
        // every 'go depth N' — also right after a go that carried a clock or a move time but ended at once
        // (depth 1), which may leave a deadline behind that only a slow or delayed later search runs into.
        if w < (if ctx.quick() { 6 } else { 16 }) {
            for rep in 0..(if ctx.quick() { 1 } else { 4 }) {
                let m = rng.range(0, 24) as usize;
                let (ps, ms) = gen::playout(&Pos::start(), &mut rng, m);
                if ps.last().unwrap().legal_moves().is_empty() {
                    continue;
                }
                let mv: Vec<String> = ms.iter().map(|m| m.uci()).collect();
                let pos = if mv.is_empty() { "position startpos".to_string() } else { format!("position startpos moves {}", mv.join(" ")) };
                let timed = match (w + rep) % 3 {
                    0 => Some(format!("go depth 1 movetime {}", rng.pick(&[3000u64, 4000]))),
                    1 => Some(format!("go depth 1 wtime {} btime {} winc 0 binc 0", 100_000, 100_000)),
                    _ => None,
                };
                let mut script = vec![pos.clone()];
                if let Some(t) = timed.as_ref() {
                    script.push(t.clone());
                    st.bump("paused_scripts_after_a_go_that_carried_a_clock_and_ended_at_once");
                }
                let d = if ps.last().unwrap().piece_count() <= 14 { 6 } else { 5 };
                script.push(format!("go depth {}", d));
                script.push(pos.clone());
                script.push(format!("go depth {}", d - 1));
                let case = J::obj(vec![("kind", J::s("paused")), ("commands", J::arr_s(script.clone())), ("compare_from", J::i(0))]);
                st.case(hash64(&(script.clone(), 0xdeu8)), true);
                st.sample_tagged("paused", || case.clone());
                // budgets of seconds, so that not even a heavily loaded machine can make the depth-1 search itself
                // run out of time; the pause is longer than half of any of them
                let pause = *rng.pick(&[2300u64, 2700]);
                match (transcript_paused(ctx, &script, 0), transcript_paused(ctx, &script, pause)) {
                    (Ok(a), Ok(b)) => {
                        st.bump("scripts_compared_with_and_without_injected_delays");
                        if a != b {
                            st.violation(
                                format!("C13:delay:{}", script.join(";")),
                                format!("the same depth-limited script gives different output when the process is stopped for {} ms in the middle of each 'go depth': {} [script: {}]", pause, first_difference(&a, &b), script.join(" ; ")),
                                case,
                            );
                        }
                    }
                    (Err(e), _) | (_, Err(e)) => st.inconclusive.push(format!("C13 script failed: {}", e)),
                }
            }
        }
        // (b) key sets in-process
        for k in 0..(n_keys / ctx.workers as u64 + 1) {
            if k >= 1 && ctx.out_of_time() {
                break;
            }
            let p = if rng.chance(1, 3) { gen::g_small(&mut rng, 10) } else { gen::g_game_pos(&mut rng) };
            if p.legal_moves().is_empty() {
                continue;
            }
            let d = if p.piece_count() <= 12 { rng.range(3, 5) } else { rng.range(2, 4) } as u8;
            let b = eng::board_from_pos(&p);
            let mut first: Option<(i32, Option<String>, u64)> = None;
            st.case(hash64(&(p.key(), d)), true);
            st.sample_tagged("keys", || J::obj(vec![("kind", J::s("keysets")), ("fen", J::s(p.to_fen())), ("depth", J::i(d as i64)), ("key_sets", J::i(k_sets as i64))]));
            for k in 0..k_sets {
                let r = engine_call(|| {
                    let mut s = Searcher::new();
                    s.verif_timer().hard_cap = Some(100_000_000);
                    let (sc, mv) = s.find_best_move(&b, d, None);
                    (sc, mv.map(|m| m.to_algebraic()), s.verif_nodes())
                });
                match r {
                    Err(msg) => {
                        st.violation(format!("C13:panic:{}:{}", p.to_fen(), d), format!("search of {} depth {} panicked: {}", p.to_fen(), d, msg), J::obj(vec![("kind", J::s("keysets")), ("fen", J::s(p.to_fen())), ("depth", J::i(d as i64))]));
                        break;
                    }
                    Ok(x) => {
                        st.bump("searches_under_fresh_key_sets");
                        match &first {
                            None => first = Some(x),
                            Some(f) => {
                                if *f != x {
                                    st.violation(
                                        format!("C13:keys:{}:{}", p.to_fen(), d),
                                        format!("{} depth {}: key set 1 gives (score {}, move {:?}, nodes {}) but key set {} gives (score {}, move {:?}, nodes {})", p.to_fen(), d, f.0, f.1, f.2, k + 1, x.0, x.1, x.2),
                                        J::obj(vec![("kind", J::s("keysets")), ("fen", J::s(p.to_fen())), ("depth", J::i(d as i64))]),
                                    );
                                    break;
                                }
                            }
                        }
                    }
                }
            }
            st.bump("key_set_groups_compared");
        }
        st
    });
    finalize(ctx, spec, total)
}

// ------------------------------------------------------------------------------------------ C16

#[derive(Clone, Debug, PartialEq)]
enum Expect {
    Uci,
    Ready,
    Go,
}

fn junk_line(rng: &mut Rng) -> Vec<u8> {
    const WORDS: &[&str] = &["stop", "debug on", "debug off", "ponderhit", "setoption name Hash value 64", "setoption name Threads value 2", "register later", "register name X code 1", "xq_zzz", "hello world", "?", "--help", "ucinewgam", "isread", "go_depth 3", "positions", "quitx", "uciok", "readyok", "bestmove e2e4", "info string hi"];
    match rng.below(13) {
        12 => {
            // unknown words separated by (or ending in, or made only of) white space that is not ASCII:
            // no-break space, ideographic space, line separator, next line, en/em spaces. None of these
            // lines names a command, so nothing may be answered and nothing may fail
            const SP: &[&str] = &["\u{a0}", "\u{3000}", "\u{2028}", "\u{85}", "\u{2003}", "\u{2009}", "\u{1680}", "\u{202f}"];
            let a = *rng.pick(&["debug", "xq_zz", "setoption", "register", "ponderhit", "stop", "isread", "xq"]);
            let sp = *rng.pick(SP);
            match rng.below(5) {
                0 => format!("{}{}on", a, sp),
                1 => format!("{}{}", a, sp),
                2 => format!("{}{}{}name X", a, sp, sp),
                3 => format!("{} x{}y", a, sp),
                _ => format!("{}{}", sp, sp),
            }
            .into_bytes()
        }
        0 => b"".to_vec(),
        1 => b"   ".to_vec(),
        2 => b"\t \t".to_vec(),
        3 => {
            let n = rng.range(200, 20_000) as usize;
            let mut v = b"xq_".to_vec();
            for _ in 0..n {
                v.push(b'a' + rng.below(26) as u8);
                if rng.chance(1, 9) {
                    v.push(b' ');
                }
            }
            v
        }
        4 => "xq_\u{00e9}\u{4e2d}\u{6587} \u{1F600} \u{2654}".as_bytes().to_vec(),
        5 => vec![b'x', b'q', 0xff, 0xfe, b' ', 0xc3, 0x28, b'z'], // not valid UTF-8
        6 => format!("xq_{}", rng.next()).into_bytes(),
        7 => {
            // buffer-boundary probe: ONE token that is exactly L bytes of filler followed at once by
            // a command word (L at and around the powers of two) — a reader that cuts lines at a
            // fixed size would see the command word as a line of its own
            let l = (1usize << rng.range(7, 16)) as i64 + rng.range(-2, 2);
            let mut v = vec![b'x'; l.max(4) as usize];
            v[1] = b'q';
            v[2] = b'_';
            v.extend_from_slice(rng.pick(&["isready", "uci", "quit", "ucinewgame", "isready"]).as_bytes());
            v
        }
        _ => rng.pick(WORDS).as_bytes().to_vec(),
    }
}

struct Script {
    bytes: Vec<u8>,
    shown: Vec<String>,
    expect: Vec<Expect>,
    ends_with_quit: bool,
    ends_mid_line: bool,
    /// position commands that repeat or extend the previous game line with a ucinewgame in between
    continued_across_newgame: u64,
}

fn c16_script(rng: &mut Rng) -> Script {
    let mut bytes = vec![];
    let mut shown = vec![];
    let mut expect = vec![];
    let crlf = rng.chance(1, 6);
    let nl: &[u8] = if crlf { b"\r\n" } else { b"\n" };
    let n = rng.range(0, 25);
    let mut push = |bytes: &mut Vec<u8>, shown: &mut Vec<String>, line: &[u8], rng: &mut Rng| {
        // surrounding blanks are legal around any command
        if rng.chance(1, 8) {
            bytes.extend_from_slice(b"  ");
        }
        bytes.extend_from_slice(line);
        if rng.chance(1, 8) {
            bytes.extend_from_slice(b" \t");
        }
        bytes.extend_from_slice(nl);
        shown.push(String::from_utf8_lossy(line).chars().take(80).collect());
    };
    // half of the streams carry a running game
    let game_session = rng.chance(1, 2);
    let line_from_fen = rng.chance(1, 3);
    let line_start = if line_from_fen { gen::g_game_pos(rng) } else { Pos::start() };
    let line: Vec<String> = gen::playout(&line_start, rng, 24).1.iter().map(|m| m.uci()).collect();
    let mut line_k = rng.below(4) as usize;
    line_k = line_k.min(line.len());
    let mut line_sent = false;
    let mut newgame_since_line = false;
    let mut continued_across_newgame = 0u64;
    let mut since_newgame_line: Option<()> = None;
    for _ in 0..n {
        match rng.below(12) {
            0 | 1 => {
                push(&mut bytes, &mut shown, b"uci", rng);
                expect.push(Expect::Uci);
            }
            2 | 3 | 4 => {
                push(&mut bytes, &mut shown, b"isready", rng);
                expect.push(Expect::Ready);
            }
            5 => {
                push(&mut bytes, &mut shown, b"ucinewgame", rng);
                newgame_since_line = true;
            }
            6 => {
                let m = rng.range(0, 30) as usize;
                let (_, ms) = gen::playout(&Pos::start(), rng, m);
                let mv: Vec<String> = ms.iter().map(|m| m.uci()).collect();
                let cmd = if mv.is_empty() { "position startpos".to_string() } else { format!("position startpos moves {}", mv.join(" ")) };
                push(&mut bytes, &mut shown, cmd.as_bytes(), rng);
                since_newgame_line = None;
            }
            9 | 10 if game_session => {
                // the session's own game line, as a GUI sends it: the same set-up with a move list
                // that grows (sometimes stays, sometimes shrinks by a take-back), also across ucinewgame
                let k_new = match rng.below(6) {
                    0 => line_k,
                    1 => line_k.saturating_sub(rng.range(1, 2) as usize),
                    _ => (line_k + rng.range(1, 3) as usize).min(line.len()),
                };
                if newgame_since_line && k_new >= line_k && line_sent {
                    continued_across_newgame += 1;
                }
                line_k = k_new;
                line_sent = true;
                newgame_since_line = false;
                let head = if line_from_fen { format!("position fen {}", line_start.to_fen()) } else { "position startpos".to_string() };
                let cmd = if line_k == 0 { head } else { format!("{} moves {}", head, line[..line_k].join(" ")) };
                push(&mut bytes, &mut shown, cmd.as_bytes(), rng);
                let _ = &since_newgame_line;
            }
            7 => {
                let p = gen::g_game_pos(rng);
                push(&mut bytes, &mut shown, format!("position fen {}", p.to_fen()).as_bytes(), rng);
            }
            8 => {
                push(&mut bytes, &mut shown, b"go depth 1", rng);
                expect.push(Expect::Go);
            }
            _ => {
                let j = junk_line(rng);
                push(&mut bytes, &mut shown, &j, rng);
            }
        }
    }
    let mut ends_with_quit = false;
    let mut ends_mid_line = false;
    match rng.below(4) {
        0 | 1 => {
            push(&mut bytes, &mut shown, b"quit", rng);
            ends_with_quit = true;
            // whatever follows quit must not matter
            if rng.chance(1, 2) {
                push(&mut bytes, &mut shown, b"isready", rng);
                push(&mut bytes, &mut shown, b"xq_after_quit", rng);
            }
        }
        2 => {} // plain end of input after a complete line
        _ => {
            // end of input in the middle of a line that produces no output whichever way it is read
            // (a position command with a move list: whether the unterminated line is carried out or dropped,
            // nothing is printed — but a reader that loses its last character would try to play 'e2e' or 'g8f')
            let tail: &[u8] = *rng.pick(&[&b"isrea"[..], &b"position startpos"[..], &b"xq_unfinished"[..], &b"ucinewgame"[..], &b"   "[..], &b"position startpos moves e2e4"[..], &b"position startpos moves e2e4 e7e5 g1f3 g8f6"[..], &b"position fen 4k3/8/8/8/8/8/4P3/4K3 w - - 0 1 moves e2e4"[..]]);
            bytes.extend_from_slice(tail);
            shown.push(format!("{} <end of input without newline>", String::from_utf8_lossy(tail)));
            ends_mid_line = true;
        }
    }
    Script { bytes, shown, expect, ends_with_quit, ends_mid_line, continued_across_newgame }
}

/// Match the transcript against the protocol model; Err describes the first deviation.
fn match_transcript(lines: &[String], expect: &[Expect]) -> Result<(), String> {
    let mut i = 0;
    for (k, e) in expect.iter().enumerate() {
        match e {
            Expect::Uci => {
                let mut ids = 0;
                let mut name = false;
                while i < lines.len() && (lines[i].starts_with("id ") || lines[i].starts_with("option ")) {
                    if lines[i].starts_with("id ") {
                        ids += 1;
                    }
                    if lines[i].starts_with("id name ") {
                        name = true;
                    }
                    i += 1;
                }
                if ids == 0 || !name {
                    return Err(format!("answer #{} (to 'uci') has no 'id name' line; next output line: {:?}", k + 1, lines.get(i)));
                }
                if lines.get(i).map(|l| l.trim()) != Some("uciok") {
                    return Err(format!("answer #{} (to 'uci'): id lines are not followed by 'uciok' but by {:?}", k + 1, lines.get(i)));
                }
                i += 1;
            }
            Expect::Ready => {
                if lines.get(i).map(|l| l.trim()) != Some("readyok") {
                    return Err(format!("answer #{} (to 'isready') should be 'readyok' but is {:?}", k + 1, lines.get(i)));
                }
                i += 1;
            }
            Expect::Go => {
                while i < lines.len() && lines[i].starts_with("info") {
                    i += 1;
                }
                if !lines.get(i).map(|l| l.starts_with("bestmove ")).unwrap_or(false) {
                    return Err(format!("answer #{} (to 'go depth 1') should end with a bestmove line but the output continues with {:?}", k + 1, lines.get(i)));
                }
                i += 1;
            }
        }
    }
    if i < lines.len() {
        return Err(format!("unexpected output line {:?} (not an answer to any command sent; unknown, blank, position and ucinewgame lines must be silent)", lines[i]));
    }
    Ok(())
}

const SPIN_THRESHOLD: u64 = 10;

fn c16_judge(ctx: &Ctx, sc: &Script, st: &mut Stats, trace: Option<&PathBuf>, sig_extra: &str) {
    let case = || J::obj(vec![("kind", J::s("stream")), ("lines", J::arr_s(sc.shown.clone())), ("input_hex", J::s(hex(&sc.bytes)))]);
    let r = match bb::run_stream(&ctx.engine_bin, &sc.bytes, trace, Duration::from_secs(25), SPIN_THRESHOLD) {
        Ok(r) => r,
        Err(e) => {
            st.inconclusive.push(format!("cannot run the engine binary: {}", e));
            return;
        }
    };
    st.bump("sessions");
    st.add("game_lines_continued_across_ucinewgame", sc.continued_across_newgame);
    st.bump(if sc.ends_with_quit { "streams_ending_with_quit" } else if sc.ends_mid_line { "streams_ending_mid_line" } else { "streams_ending_at_end_of_input" });
    st.add("answers_expected", sc.expect.len() as u64);
    if let Some(n) = r.eof_reads {
        st.maxi("max_zero_length_reads_of_stdin", n);
        if !sc.ends_with_quit {
            st.bump("end_of_input_observed_under_strace");
        }
    }
    // a quit in the middle: output is a prefix of the model (only commands before quit answered)
    if let Err(why) = match_transcript(&r.stdout, &sc.expect) {
        st.violation(format!("C16:transcript:{}{}", hex(&sc.bytes[..sc.bytes.len().min(64)]), sig_extra), format!("protocol transcript deviates from the model: {}", why), case());
        return;
    }
    if r.spun {
        st.violation(
            format!("C16:eof-spin{}", sig_extra),
            format!("after the end of its input the engine kept calling read(0): {} zero-length reads seen and still running (killed by the monitor)", r.eof_reads.unwrap_or(0)),
            case(),
        );
        return;
    }
    if r.watchdog_fired {
        // neither exited nor (as far as strace shows) spinning: decide on CPU burnt
        if r.cpu_ms > 2000 {
            st.violation(format!("C16:eof-spin{}", sig_extra), format!("the engine was still alive 25 s after the end of its input, having burnt {} ms of CPU", r.cpu_ms), case());
        } else {
            st.inconclusive.push("the engine neither exited nor consumed CPU within the watchdog after the end of input".into());
        }
        return;
    }
    if r.exit_code != Some(0) {
        st.violation(
            format!("C16:exit-status:{}{}", r.status, sig_extra),
            format!("the engine terminated with '{}' instead of exit status 0 ({})", r.status, if sc.ends_with_quit { "stream ended with quit" } else { "stream ended without quit" }),
            case(),
        );
    }
}


/// Supplementary: a stream under valgrind memcheck. Judged like any other stream (transcript, exit
/// status) plus: memcheck must not report an invalid access or a use of uninitialised memory.
fn c16_memcheck(ctx: &Ctx, sc: &Script, st: &mut Stats, idx: usize) {
    let log = ctx.out_dir.join("replays").join(format!("C16-memcheck-{}.log.tmp", idx));
    let case = || J::obj(vec![("kind", J::s("stream")), ("lines", J::arr_s(sc.shown.clone())), ("input_hex", J::s(hex(&sc.bytes))), ("under", J::s("valgrind memcheck"))]);
    match bb::run_memcheck(&ctx.engine_bin, &sc.bytes, &log, Duration::from_secs(240)) {
        Err(e) => {
            st.bump("memcheck_runs_not_possible");
            st.sample_tagged("memcheck_unavailable", || J::s(format!("memcheck not run: {}", e)));
        }
        Ok((lines, code, text)) => {
            st.bump("streams_under_valgrind_memcheck");
            st.case(hash64(&(sc.bytes.clone(), 0x3cu8)), true);
            let bad = text.lines().find(|l| l.contains("Invalid read") || l.contains("Invalid write") || l.contains("uninitialised") || l.contains("Invalid free") || l.contains("Mismatched free") || l.contains("overlap"));
            if code == Some(99) || bad.is_some() {
                let first = bad.unwrap_or("error exit code 99").trim_start_matches(|c: char| c == '=' || c.is_ascii_digit() || c == ' ').to_string();
                st.violation(format!("C16:memcheck:{}", first), format!("valgrind memcheck reports '{}' while the release binary processes the stream", first), case());
                return;
            }
            if let Err(why) = match_transcript(&lines, &sc.expect) {
                st.violation(format!("C16:transcript:{}:memcheck", hex(&sc.bytes[..sc.bytes.len().min(64)])), format!("protocol transcript deviates from the model (under memcheck): {}", why), case());
                return;
            }
            if code != Some(0) {
                st.violation(format!("C16:exit-status:{:?}:memcheck", code), format!("the engine terminated with exit code {:?} instead of 0 (under memcheck)", code), case());
            }
        }
    }
    let _ = std::fs::remove_file(&log);
}

fn hex(b: &[u8]) -> String {
    b.iter().map(|x| format!("{:02x}", x)).collect()
}

fn unhex(s: &str) -> Vec<u8> {
    (0..s.len() / 2).filter_map(|i| u8::from_str_radix(&s[2 * i..2 * i + 2], 16).ok()).collect()
}

pub fn run_c16(ctx: &Ctx) -> i32 {
    let spec = Spec {
        level: "exploration",
        rule: "a case is one input stream fed to a fresh process of the real binary: 0..25 lines drawn from uci / isready / ucinewgame / position (unrelated games, and in half of the streams a running game line whose move list grows, stays or shrinks from one position command to the next, also across ucinewgame) / go depth 1 / junk (blank, whitespace, tabs, 20 kB lines, single tokens of 2^7..2^16 bytes of filler glued to a command word — a reader that cuts lines at a fixed size would see the word as a line of its own —, unicode, invalid UTF-8, near-miss command words, GUI-to-engine words this engine does not implement), with optional surrounding blanks and CRLF endings, ending with quit (possibly followed by more lines), at end of input after a full line, or in the middle of a silent line. The transcript must match the protocol model (id lines + uciok per uci, readyok per isready, info* + bestmove per go, nothing else), the exit status must be 0, and after the end of input the process may read fd 0 only a few more times: strace counts zero-length reads and 10 of them with the process still running is the violation witness (an event count, not a timeout). A few streams additionally run under valgrind memcheck (supplementary: invalid accesses or uses of uninitialised memory in the read loop and at exit would be reported). Distinct by input bytes; non-trivial when the stream expects at least one answer or ends without quit",
        assumptions: vec!["junk never contains a recognised command word as a separate token, so 'ignore the unknown token and parse the rest' engines and 'ignore the whole line' engines agree on every stream sent".into(), "strace -e trace=read,exit_group observes the engine's system calls; when strace cannot attach the fallback witness is CPU burnt while alive after end of input".into()],
        required: if ctx.replay.is_some() { vec![] } else { vec!["streams_ending_with_quit", "streams_ending_mid_line", "streams_ending_at_end_of_input", "answers_expected", "end_of_input_observed_under_strace", "game_lines_continued_across_ucinewgame"] },
        exhaustive: false,
        extra: vec![],
    };
    let use_strace = bb::strace_available();
    let tdir = ctx.verif_dir.join("target").join("trace");
    let _ = std::fs::create_dir_all(&tdir);
    if let Some(r) = ctx.replay.as_ref() {
        let mut st = Stats::new();
        if let Some(c) = r.get("case") {
            let bytes = unhex(&c.str_of("input_hex"));
            // rebuild expectations from the bytes: one per recognised command line before quit
            let mut expect = vec![];
            let mut quit = false;
            let text = String::from_utf8_lossy(&bytes).to_string();
            let complete_until = bytes.iter().rposition(|b| *b == b'\n').map(|i| i + 1).unwrap_or(0);
            for l in String::from_utf8_lossy(&bytes[..complete_until]).lines() {
                let t: Vec<&str> = l.split_whitespace().collect();
                match t.first() {
                    Some(&"uci") => expect.push(Expect::Uci),
                    Some(&"isready") => expect.push(Expect::Ready),
                    Some(&"go") => expect.push(Expect::Go),
                    Some(&"quit") => {
                        quit = true;
                        break;
                    }
                    _ => {}
                }
            }
            let _ = text;
            let sc = Script { bytes: bytes.clone(), shown: vec![], expect, ends_with_quit: quit, ends_mid_line: complete_until < bytes.len(), continued_across_newgame: 0 };
            st.case(hash64(&bytes), true);
            let tf = tdir.join("replay.trace");
            if c.str_of("under").contains("memcheck") {
                c16_memcheck(ctx, &sc, &mut st, 99);
            } else {
                c16_judge(ctx, &sc, &mut st, if use_strace { Some(&tf) } else { None }, "");
            }
        }
        return finalize(ctx, spec, st);
    }
    let n = ctx.budget(1600, 40_000);
    let total = parallel(ctx.workers, |w| {
        let mut st = Stats::new();
        let mut rng = Rng::new(ctx.seed, 1600 + w as u64);
        let tf = tdir.join(format!("w{}.trace", w));
        // supplementary: a few streams under valgrind memcheck (2 per run in the quick tier, 2 per worker otherwise)
        if std::env::var("VERIF_NO_BLACKBOX").is_err() && (!ctx.quick() || w < 2) {
            for k in 0..(if ctx.quick() { 1 } else { 2 }) {
                let sc = c16_script(&mut rng);
                c16_memcheck(ctx, &sc, &mut st, w * 4 + k);
            }
        }
        for i in 0..(n / ctx.workers as u64 + 1) {
            if ctx.out_of_time() {
                break;
            }
            let mut sc = c16_script(&mut rng);
            if w == 0 && i == 0 {
                // the original finding's input, in every run: handshake then plain end of input
                sc = Script { bytes: b"uci\nisready\n".to_vec(), shown: vec!["uci".into(), "isready".into()], expect: vec![Expect::Uci, Expect::Ready], ends_with_quit: false, ends_mid_line: false, continued_across_newgame: 0 };
            }
            // quit in the middle cuts the expectations: only those before quit were generated, since
            // quit is always the last meaningful line of a generated stream
            st.case(hash64(&sc.bytes), !sc.expect.is_empty() || !sc.ends_with_quit);
            st.sample_tagged(if sc.ends_with_quit { "quit" } else if sc.ends_mid_line { "midline" } else { "eof" }, || J::obj(vec![("lines", J::arr_s(sc.shown.clone())), ("ends_with_quit", J::Bool(sc.ends_with_quit))]));
            // every 4th stream runs without strace too (the artefact exactly as a user runs it)
            let traced = use_strace && i % 4 != 3;
            c16_judge(ctx, &sc, &mut st, if traced { Some(&tf) } else { None }, "");
        }
        let _ = std::fs::remove_file(&tf);
        st
    });
    finalize(ctx, spec, total)
}
