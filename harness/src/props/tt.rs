//! C15 — the transposition table returns only what was stored for that key, deepest wins.
//! Random store/retrieve histories on hostile key sets, checked online against a reference map.
use crate::json::J;
use crate::moves::{Move, MoveType};
use crate::pieces::Piece;
use crate::report::{engine_call, finalize, parallel, Ctx, Spec, Stats};
use crate::rng::{hash64, Rng};
use crate::transposition::{Bounds, Entry, TranspositionTable};
use std::collections::HashMap;

#[derive(Clone, Copy, PartialEq, Debug)]
struct Rec {
    eval: i32,
    mv: Option<Move>,
    depth: u8,
    bounds: Bounds,
}

fn rec_of(e: &Entry) -> Rec {
    Rec { eval: e.eval, mv: e.best_move, depth: e.depth, bounds: e.bounds }
}

fn hostile_keys(rng: &mut Rng) -> Vec<u64> {
    let mut ks = vec![0u64, 1, u64::MAX, u64::MAX - 1, 1 << 63, 1 << 32, (1 << 32) - 1];
    let base = rng.next();
    ks.push(base);
    for bit in [0, 1, 15, 16, 23, 24, 31, 32, 33, 47, 48, 63] {
        ks.push(base ^ (1u64 << bit)); // pairs differing in one bit
    }
    for lowbits in [16u32, 20, 24, 32] {
        let mask = (1u64 << lowbits) - 1;
        for _ in 0..2 {
            ks.push((rng.next() & !mask) | (base & mask)); // equal in the low bits (a truncating index aliases them)
        }
    }
    for _ in 0..2 {
        ks.push((base & 0xFFFF_FFFF_0000_0000) | (rng.next() & 0xFFFF_FFFF)); // equal in the high 32 bits
    }
    ks.push(base.rotate_left(32));
    ks.push(base.swap_bytes());
    ks
}

fn random_move(rng: &mut Rng) -> Option<Move> {
    if rng.chance(1, 5) {
        return None;
    }
    let pt = *rng.pick(&[Piece::Pawn, Piece::Knight, Piece::Bishop, Piece::Rook, Piece::Queen, Piece::King]);
    let mt = *rng.pick(&[MoveType::Quiet, MoveType::Capture, MoveType::EnPassant, MoveType::Castle, MoveType::Promotion]);
    Some(Move::new(rng.below(64) as u8, rng.below(64) as u8, pt, mt))
}

fn mv_json(m: &Option<Move>) -> J {
    match m {
        None => J::Null,
        Some(m) => J::s(format!("{}:{:?}:{:?}", m.to_algebraic(), m.piece_type, m.move_type)),
    }
}

#[derive(Clone)]
enum Op {
    Store(u64, i32, Option<Move>, u8, Bounds),
    Get(u64),
}

fn op_json(op: &Op) -> J {
    match op {
        Op::Store(k, e, m, d, b) => J::obj(vec![("op", J::s("store")), ("key", J::s(format!("{:#018x}", k))), ("eval", J::i(*e as i64)), ("move", mv_json(m)), ("depth", J::i(*d as i64)), ("bound", J::s(format!("{:?}", b)))]),
        Op::Get(k) => J::obj(vec![("op", J::s("retrieve")), ("key", J::s(format!("{:#018x}", k)))]),
    }
}

fn op_parse(j: &J) -> Option<Op> {
    let key = u64::from_str_radix(j.str_of("key").trim_start_matches("0x"), 16).ok()?;
    if j.str_of("op") == "retrieve" {
        return Some(Op::Get(key));
    }
    let bound = match j.str_of("bound").as_str() {
        "Exact" => Bounds::Exact,
        "Lower" => Bounds::Lower,
        _ => Bounds::Upper,
    };
    let mv = j.get("move").and_then(|m| m.as_str()).and_then(|s| {
        let parts: Vec<&str> = s.split(':').collect();
        if parts.len() != 3 || parts[0].len() < 4 {
            return None;
        }
        let from = crate::oracle::parse_sq(&parts[0][0..2])?;
        let to = crate::oracle::parse_sq(&parts[0][2..4])?;
        let pt = match parts[1] {
            "Pawn" => Piece::Pawn,
            "Knight" => Piece::Knight,
            "Bishop" => Piece::Bishop,
            "Rook" => Piece::Rook,
            "Queen" => Piece::Queen,
            _ => Piece::King,
        };
        let mt = match parts[2] {
            "Quiet" => MoveType::Quiet,
            "Capture" => MoveType::Capture,
            "EnPassant" => MoveType::EnPassant,
            "Castle" => MoveType::Castle,
            _ => MoveType::Promotion,
        };
        Some(Move::new(from, to, pt, mt))
    });
    Some(Op::Store(key, j.int_of("eval") as i32, mv, j.int_of("depth") as u8, bound))
}

/// Runs one history; returns the index of the first violating op with a message.
fn run_history(ops: &[Op], st: &mut Stats) -> Option<(usize, String)> {
    let mut tt = TranspositionTable::new();
    // model of what each key holds, kept in step with what the table itself reports (a bounded
    // table may drop entries: "either nothing or the data most recently accepted")
    let mut model: HashMap<u64, Rec> = HashMap::new();
    for (i, op) in ops.iter().enumerate() {
        if i % 16 == 0 {
            crate::report::note_case(&format!("store/retrieve history, operation #{} of {}: {}", i, ops.len(), op_json(op).to_string()));
        }
        match op {
            Op::Get(k) => {
                let got = match engine_call(|| tt.retrieve(*k).copied()) {
                    Ok(g) => g,
                    Err(m) => return Some((i, format!("retrieve panicked: {}", m))),
                };
                match (got, model.get(k)) {
                    (None, None) => st.bump("retrieve_miss"),
                    (None, Some(_)) => {
                        st.bump("retrieve_dropped");
                        model.remove(k);
                    }
                    (Some(e), None) => {
                        return Some((i, format!("retrieve({:#x}) returned {:?} although nothing is held for that key", k, e)));
                    }
                    (Some(e), Some(want)) => {
                        st.bump("retrieve_hit");
                        if e.hash_key != *k || rec_of(&e) != *want {
                            return Some((i, format!("retrieve({:#x}) returned {:?}, the data accepted for that key is {:?}", k, e, want)));
                        }
                    }
                }
            }
            Op::Store(k, eval, mv, depth, bounds) => {
                // observe the state for this key just before the store
                let before = tt.retrieve(*k).copied();
                match (&before, model.get(k)) {
                    (None, Some(_)) => {
                        model.remove(k);
                    }
                    (Some(e), Some(w)) if e.hash_key == *k && rec_of(e) == *w => {}
                    (None, None) => {}
                    (Some(e), w) => return Some((i, format!("before store: table holds {:?} for {:#x}, expected {:?}", e, k, w))),
                }
                if let Err(m) = engine_call(|| tt.store(*k, *eval, *mv, *depth, *bounds)) {
                    return Some((i, format!("store panicked: {}", m)));
                }
                let new = Rec { eval: *eval, mv: *mv, depth: *depth, bounds: *bounds };
                let expect = match model.get(k) {
                    None => {
                        st.bump("store_first");
                        new
                    }
                    Some(old) if *depth >= old.depth => {
                        st.bump(if *depth == old.depth { "store_replaces_equal_depth" } else { "store_replaces_shallower" });
                        new
                    }
                    Some(old) => {
                        st.bump("store_refused_shallower");
                        *old
                    }
                };
                model.insert(*k, expect);
                match tt.retrieve(*k).copied() {
                    None => {
                        st.bump("retrieve_dropped");
                        model.remove(k);
                    }
                    Some(e) => {
                        if e.hash_key != *k || rec_of(&e) != expect {
                            let why = if rec_of(&e) == new { "a shallower result replaced a deeper one" } else { "an equal-or-deeper result did not replace the old one (or foreign data)" };
                            return Some((i, format!("after store({:#x}, depth {}) the table holds {:?}, expected {:?}: {}", k, depth, e, expect, why)));
                        }
                    }
                }
            }
        }
    }
    None
}


/// Capacity history: a few anchor entries, then `n_fill` stores under distinct keys (a whole game's
/// worth of positions), with the anchors — and a sample of the fillers — re-examined at every power
/// of two on the way: whatever the table does when it fills up, a lookup must still return nothing
/// or exactly the data accepted for that key, and a held deeper result must still refuse a shallower
/// one. The history is a function of (seed, n_fill), so the replay file only names those.
fn capacity_history(seed: u64, n_fill: u64, st: &mut Stats) -> Option<String> {
    crate::report::note_case(&format!("capacity history: seed {}, {} distinct keys", seed, n_fill));
    let mut rng = Rng::new(seed, 0xCA9A);
    let mut tt = TranspositionTable::new();
    let mut anchors: Vec<(u64, Rec)> = vec![];
    let mut keys = hostile_keys(&mut rng);
    keys.sort();
    keys.dedup();
    for (i, k) in keys.iter().enumerate() {
        let rec = Rec { eval: 1000 + i as i32, mv: random_move(&mut rng), depth: *rng.pick(&[1u8, 5, 9, 40, 255]), bounds: *rng.pick(&[Bounds::Exact, Bounds::Lower, Bounds::Upper]) };
        if engine_call(|| tt.store(*k, rec.eval, rec.mv, rec.depth, rec.bounds)).is_err() {
            return Some("store panicked".into());
        }
        anchors.push((*k, rec));
    }
    let mut sample: Vec<(u64, Rec)> = vec![];
    let mut next_check = 1u64 << 10;
    let mut held = anchors.len() as u64;
    for n in 1..=n_fill {
        let k = rng.next() | 1 << 40; // fillers never equal an anchor by construction of the check below
        if anchors.iter().any(|(a, _)| *a == k) {
            continue;
        }
        let rec = Rec { eval: (n % 2000) as i32 - 1000, mv: None, depth: (n % 7) as u8, bounds: Bounds::Exact };
        if let Err(m) = engine_call(|| tt.store(k, rec.eval, rec.mv, rec.depth, rec.bounds)) {
            return Some(format!("store #{} panicked: {}", n, m));
        }
        if n % 4099 == 0 && sample.len() < 4000 {
            sample.push((k, rec));
        }
        if n == next_check || n == next_check + 1 || n == n_fill {
            if n == next_check + 1 {
                next_check <<= 1;
            }
            st.bump("capacity_checkpoints");
            st.maxi("max_distinct_keys_stored_in_one_table", n + anchors.len() as u64);
            let mut still = 0;
            for (k, want) in anchors.iter_mut().chain(sample.iter_mut()) {
                match engine_call(|| tt.retrieve(*k).copied()) {
                    Err(m) => return Some(format!("retrieve panicked: {}", m)),
                    Ok(None) => {
                        st.bump("retrieve_dropped");
                        // forgotten: the next accepted store defines the data for this key
                        let rec = Rec { eval: want.eval + 1, mv: want.mv, depth: want.depth, bounds: want.bounds };
                        if engine_call(|| tt.store(*k, rec.eval, rec.mv, rec.depth, rec.bounds)).is_err() {
                            return Some("store panicked".into());
                        }
                        *want = rec;
                    }
                    Ok(Some(e)) => {
                        still += 1;
                        st.bump("retrieve_hit");
                        if e.hash_key != *k || rec_of(&e) != *want {
                            return Some(format!("after {} stores under distinct keys, retrieve({:#x}) returned {:?}; the data accepted for that key is {:?}", n, k, e, want));
                        }
                        // a shallower result must not replace it
                        if want.depth > 0 {
                            if engine_call(|| tt.store(*k, -want.eval, None, want.depth - 1, Bounds::Upper)).is_err() {
                                return Some("store panicked".into());
                            }
                            st.bump("store_refused_shallower");
                            match tt.retrieve(*k).copied() {
                                Some(e2) if rec_of(&e2) == *want => {}
                                None => {}
                                Some(e2) => return Some(format!("after {} stores under distinct keys, a depth-{} result replaced the depth-{} result held for {:#x}: now {:?}", n, want.depth - 1, want.depth, k, e2)),
                            }
                        }
                    }
                }
            }
            held = still;
        }
    }
    st.maxi("anchor_and_sample_entries_still_held_at_the_end", held);
    None
}

fn gen_history(rng: &mut Rng, len: usize) -> Vec<Op> {
    let keys = hostile_keys(rng);
    let nkeys = *rng.pick(&[2usize, 3, 5, keys.len()]);
    let depths: &[u8] = match rng.below(3) {
        0 => &[0, 1, 2, 3],
        1 => &[0, 1, 127, 128, 254, 255],
        _ => &[0, 1, 2, 3, 4, 5, 6, 7, 8, 16, 63, 64, 255],
    };
    (0..len)
        .map(|_| {
            let k = keys[rng.below(nkeys as u64) as usize];
            if rng.chance(2, 5) {
                Op::Get(k)
            } else {
                let eval = *rng.pick(&[0, 1, -1, 32767, -32767, i32::MAX - 1000, -(i32::MAX - 1000), i32::MAX, i32::MIN + 1, 250, -613]);
                Op::Store(k, eval, random_move(rng), *rng.pick(depths), *rng.pick(&[Bounds::Exact, Bounds::Lower, Bounds::Upper]))
            }
        })
        .collect()
}

pub fn run(ctx: &Ctx) -> i32 {
    let spec = Spec {
        level: "exploration",
        rule: "cases are store/retrieve operations inside random histories on a fresh table, each checked online against a reference map with the rule 'replace iff new depth >= held depth' (the held state is re-observed before every store so that a table that legitimately drops entries is not accused); keys are hostile: 0, 1, MAX, pairs differing in one bit, sets equal in the low 16/20/24/32 bits or in the high 32 bits, rotations; depths around 0, 127/128 and 255; all three bounds; None moves. Capacity histories: a few dozen anchor entries, then up to 2^22 (quick) / 2^24 (thorough) stores under distinct keys, anchors and a sample of the fillers re-examined at every power of two. evaluations counts operations; distinct by (operation kind, key, eval, depth, bound); every operation counts as non-trivial because all keys, depths and scores are drawn from the hostile sets",
        assumptions: vec!["a retrieve that returns nothing for a key that holds data is accepted (the property allows a lossy table); retrieve_hit must be > 0 for the run to count".into()],
        required: if ctx.replay.is_some() { vec![] } else { vec!["retrieve_hit", "retrieve_miss", "store_first", "store_replaces_equal_depth", "store_replaces_shallower", "store_refused_shallower", "capacity_histories", "capacity_checkpoints"] },
        exhaustive: false,
        extra: vec![],
    };
    if let Some(c) = ctx.replay.as_ref().and_then(|r| r.get("case")).filter(|c| c.str_of("kind") == "capacity") {
        let mut st = Stats::new();
        st.case(1, true);
        if let Some(why) = capacity_history(c.int_of("history_seed") as u64, c.int_of("distinct_keys") as u64, &mut st) {
            st.violation("C15:capacity:replay", why, c.clone());
        }
        return finalize(ctx, spec, st);
    }
    if let Some(r) = ctx.replay.as_ref() {
        let mut st = Stats::new();
        let ops: Vec<Op> = r.get("case").and_then(|c| c.get("ops")).and_then(|o| o.as_arr()).cloned().unwrap_or_default().iter().filter_map(op_parse).collect();
        for _ in ops.iter() {
            st.case(0, true);
        }
        if let Some((i, why)) = run_history(&ops, &mut st) {
            st.violation("C15:replay", format!("operation #{}: {}", i, why), r.get("case").cloned().unwrap_or(J::Null));
        }
        return finalize(ctx, spec, st);
    }
    let histories = ctx.budget(600_000, 30_000_000) / ctx.workers as u64 + 1;
    let total = parallel(ctx.workers, |w| {
        let mut st = Stats::new();
        let mut rng = Rng::new(ctx.seed, 400 + w as u64);
        // capacity histories: the table filled far beyond what any unit test stores; sizes just
        // past the powers of two up to 2^22 (quick) / 2^24 (thorough), spread over the workers
        {
            let top: u32 = if ctx.quick() { 22 } else { 24 };
            let exp = top.saturating_sub((w as u32) % 6 * 2).max(10);
            let n_fill = (1u64 << exp) + (1u64 << (exp - 2)) + rng.below(1000);
            let hseed = ctx.seed.wrapping_mul(1000).wrapping_add(w as u64);
            st.case(hash64(&(0xCAu8, hseed, n_fill)), true);
            st.bump("capacity_histories");
            if w == 0 {
                st.sample_tagged("capacity", || J::obj(vec![("kind", J::s("capacity")), ("history_seed", J::i(hseed as i64)), ("distinct_keys", J::i(n_fill as i64))]));
            }
            if let Some(why) = capacity_history(hseed, n_fill, &mut st) {
                st.violation(format!("C15:capacity:{}:{}", hseed, n_fill), why, J::obj(vec![("kind", J::s("capacity")), ("history_seed", J::i(hseed as i64)), ("distinct_keys", J::i(n_fill as i64))]));
            }
        }
        for h in 0..histories {
            if ctx.out_of_time() {
                break;
            }
            let len = *rng.pick(&[8usize, 40, 100, 400]);
            let ops = gen_history(&mut rng, len);
            st.bump("histories");
            for op in ops.iter() {
                let sig = match op {
                    Op::Store(k, e, _, d, b) => hash64(&(1u8, *k, *e, *d, *b as u8)),
                    Op::Get(k) => hash64(&(2u8, *k)),
                };
                st.case(sig, true);
            }
            if h == 0 {
                st.sample_tagged(if w == 0 { "history" } else { "other" }, || J::Arr(ops.iter().take(12).map(op_json).collect()));
            }
            if let Some((i, why)) = run_history(&ops, &mut st) {
                let upto: Vec<J> = ops[..=i].iter().map(op_json).collect();
                st.violation(
                    format!("C15:history:{:016x}", hash64(&J::Arr(upto.clone()).to_string())),
                    format!("operation #{} of a {}-operation history: {}", i, ops.len(), why),
                    J::obj(vec![("ops", J::Arr(upto))]),
                );
            }
        }
        st
    });
    finalize(ctx, spec, total)
}
