//! C12 — thinking time is taken from the mover's own clock and fits in it.
//! The real `go` parser is driven in-process; a hook records the budget handed to the search.
//! The oracle is relational (no formula): invariance under the opponent's values and token order,
//! budget <= remaining, budget < remaining whenever any time remains.
use crate::json::J;
use crate::report::{engine_call, finalize, parallel, Ctx, Spec, Stats};
use crate::rng::{hash64, Rng};
use crate::uci::Flounder;
use std::collections::HashMap;

const TIMES: [u64; 22] = [0, 1, 2, 10, 49, 50, 51, 100, 999, 1000, 4999, 5000, 5001, 5025, 5026, 5100, 6000, 30_000, 60_000, 3_600_000, 36_000_000, 86_400_000];
const INCS: [u64; 9] = [0, 1, 10, 100, 1000, 2000, 5000, 60_000, 600_000];

fn budget_of(eng: &mut Flounder, cmd: &str) -> Result<Option<u64>, String> {
    eng.verif.last_go = None;
    engine_call(|| eng.verif_handle_command(cmd))?;
    match eng.verif.last_go {
        Some((_, Some(d))) => Ok(Some(d.as_millis() as u64)),
        Some((_, None)) => Ok(None),
        None => Err("the go command did not reach the search".into()),
    }
}

/// The state the engine is in when the go command arrives: the position last set and how many timed
/// searches this engine instance has really run since it was created.
#[derive(Clone)]
struct Setting {
    position_cmd: String,
    earlier_searches: u64,
}

impl Setting {
    fn plain(black: bool) -> Setting {
        Setting { position_cmd: if black { "position startpos moves e2e4".into() } else { "position startpos".into() }, earlier_searches: 0 }
    }
    /// a fresh engine brought into this state
    fn engine(&self) -> Result<Flounder, String> {
        let mut eng = Flounder::new();
        // several commands may be given, separated by " ; " (e.g. a game, ucinewgame, another game)
        for c in self.position_cmd.split(" ; ") {
            engine_call(|| eng.verif_handle_command(c))?;
        }
        eng.verif.budget_only = false;
        for i in 0..self.earlier_searches {
            // real, timed searches that end at once (depth 1): whatever the engine learns from
            // finished searches about its own timing, it learns here
            let cmd = if i % 2 == 0 { "go depth 1 wtime 60000 btime 60000 winc 1000 binc 1000" } else { "go depth 1 movetime 200" };
            engine_call(|| eng.verif_handle_command(cmd))?;
        }
        eng.verif.budget_only = true;
        Ok(eng)
    }
}

fn one_case(eng: &mut Flounder, setting: &Setting, black_to_move: bool, mover: (u64, u64), opp: (u64, u64), order: &[usize; 4], tail: &str, st: &mut Stats, seen: &mut HashMap<(bool, u64, u64), (u64, String)>) {
    let (wt, wi, bt, bi) = if black_to_move { (opp.0, opp.1, mover.0, mover.1) } else { (mover.0, mover.1, opp.0, opp.1) };
    let pairs = [format!("wtime {}", wt), format!("btime {}", bt), format!("winc {}", wi), format!("binc {}", bi)];
    let mut cmd = String::from("go");
    for &i in order {
        cmd.push(' ');
        cmd.push_str(&pairs[i]);
    }
    cmd.push_str(tail);
    let side = if black_to_move { "black" } else { "white" };
    let case = || J::obj(vec![("side_to_move", J::s(side)), ("command", J::s(cmd.clone())), ("position_command", J::s(setting.position_cmd.clone())), ("earlier_searches", J::i(setting.earlier_searches as i64))]);
    st.case(hash64(&(setting.position_cmd.clone(), setting.earlier_searches, cmd.clone())), true);
    st.sample_tagged(side, case);
    let b = match budget_of(eng, &cmd) {
        Ok(Some(b)) => b,
        Ok(None) => {
            st.violation(format!("C12:no-budget:{}:{}", side, cmd), format!("'{}' ({} to move) started a search without any time budget", cmd, side), case());
            return;
        }
        Err(m) => {
            st.violation(format!("C12:panic:{}:{}", side, cmd), format!("'{}' ({} to move) failed: {}", cmd, side, m), case());
            return;
        }
    };
    let remaining = mover.0;
    st.bump(if remaining == 0 { "clock_zero" } else if remaining <= 5000 { "clock_at_or_below_reserve" } else { "clock_above_reserve" });
    if mover.1 > remaining {
        st.bump("increment_exceeds_remaining");
    }
    if b > remaining || (remaining > 0 && b >= remaining) {
        st.violation(
            format!("C12:budget-exceeds-clock:{}:{}:{}", side, mover.0, mover.1),
            format!("'{}' with {} to move (after '{}' and {} earlier searches on this engine) budgets {} ms but only {} ms remain on the mover's clock", cmd, side, setting.position_cmd, setting.earlier_searches, b, remaining),
            case(),
        );
    }
    match seen.get(&(black_to_move, mover.0, mover.1)) {
        None => {
            seen.insert((black_to_move, mover.0, mover.1), (b, cmd.clone()));
        }
        Some((prev, prev_cmd)) => {
            st.bump("invariance_comparisons");
            if *prev != b {
                st.violation(
                    format!("C12:depends-on-opponent-or-order:{}:{}:{}", side, mover.0, mover.1),
                    format!(
                        "{} to move with {} ms + {} ms increment: '{}' budgets {} ms but '{}' budgets {} ms (only the opponent's values / token order differ)",
                        side, mover.0, mover.1, prev_cmd, prev, cmd, b
                    ),
                    J::obj(vec![("side_to_move", J::s(side)), ("command", J::s(cmd.clone())), ("other_command", J::s(prev_cmd.clone())), ("position_command", J::s(setting.position_cmd.clone())), ("earlier_searches", J::i(setting.earlier_searches as i64))]),
                );
            }
        }
    }
}

fn perms() -> Vec<[usize; 4]> {
    let mut v = vec![];
    for a in 0..4 {
        for b in 0..4 {
            for c in 0..4 {
                for d in 0..4 {
                    let p = [a, b, c, d];
                    let mut s = p;
                    s.sort();
                    if s == [0, 1, 2, 3] {
                        v.push(p);
                    }
                }
            }
        }
    }
    v
}

pub fn run(ctx: &Ctx) -> i32 {
    let spec = Spec {
        level: "exploration",
        rule: "cases are go commands made of the four pairs wtime/btime/winc/binc in one of the 24 token orders (optionally followed by 'movestogo N'), with either side to move; the mover's (time, increment) range over hostile values (0, 1, around the 5 s reserve, hours) and for each the opponent's values and the order vary; the budget recorded by the hook must be identical across opponent values and orders, <= the mover's remaining time, and < it whenever any time remains. The grid is run on fresh engines at the start position (either side to move) and, reduced, on other engine states: positions with few and with many legal moves (up to 218) engine instances that have already run 1..40 real timed searches, and engines that reached their position through an earlier game followed by ucinewgame or by a second position command (the mover is the side to move in the position the engine holds now). Distinct by (engine state, command text); all non-trivial. End-to-end part: the real release binary is given extreme clocks (0..900 ms left, increments up to 10 s) in middlegames and the CPU time it consumes before answering must stay within the remaining time + 500 ms",
        assumptions: vec!["the budget observed is the Duration handed to find_best_move (hook in handle_go_command); that the search honours it is property C07".into()],
        required: if ctx.replay.is_some() { vec![] } else { vec!["invariance_comparisons", "clock_zero", "clock_at_or_below_reserve", "clock_above_reserve", "increment_exceeds_remaining", "blackbox_go_with_extreme_clocks", "engine_states_other_than_a_fresh_start_position", "engine_states_after_12_or_more_timed_searches", "engine_states_with_more_than_30_legal_moves", "engine_states_reached_through_an_earlier_game_and_ucinewgame_or_a_second_position_command", "blackbox_go_with_seconds_on_the_clock_and_a_huge_increment"] },
        exhaustive: false,
        extra: vec![],
    };
    let all_perms = perms();
    if let Some(r) = ctx.replay.as_ref() {
        let mut st = Stats::new();
        if let Some(c) = r.get("case") {
            let black = c.str_of("side_to_move") == "black";
            let setting = if c.str_of("position_command").is_empty() { Setting::plain(black) } else { Setting { position_cmd: c.str_of("position_command"), earlier_searches: c.int_of("earlier_searches").max(0) as u64 } };
            let mut eng = match setting.engine() {
                Ok(e) => e,
                Err(m) => {
                    st.inconclusive.push(format!("replay: cannot set the engine up: {}", m));
                    return finalize(ctx, spec, st);
                }
            };
            let mut budgets = vec![];
            for key in ["command", "other_command"] {
                let cmd = c.str_of(key);
                if cmd.is_empty() {
                    continue;
                }
                st.case(hash64(&cmd), true);
                let toks: Vec<&str> = cmd.split_whitespace().collect();
                let val = |name: &str| toks.iter().position(|t| *t == name).and_then(|i| toks.get(i + 1)).and_then(|v| v.parse::<u64>().ok()).unwrap_or(0);
                let remaining = if black { val("btime") } else { val("wtime") };
                match budget_of(&mut eng, &cmd) {
                    Ok(Some(b)) => {
                        budgets.push(b);
                        if b > remaining || (remaining > 0 && b >= remaining) {
                            st.violation("C12:replay:clock", format!("'{}' budgets {} ms, remaining {}", cmd, b, remaining), c.clone());
                        }
                    }
                    other => st.violation("C12:replay", format!("'{}' -> {:?}", cmd, other), c.clone()),
                }
            }
            if budgets.len() == 2 && budgets[0] != budgets[1] {
                st.violation("C12:replay:invariance", format!("budgets differ: {:?}", budgets), c.clone());
            }
        }
        return finalize(ctx, spec, st);
    }
    let variants = ctx.budget(60, 1500);
    let total = parallel(ctx.workers, |w| {
        let mut st = Stats::new();
        let mut rng = Rng::new(ctx.seed, 500 + w as u64);
        let mut idx = 0usize;
        for black in [false, true] {
            let setting = Setting::plain(black);
            let mut eng = match setting.engine() {
                Ok(e) => e,
                Err(_) => {
                    st.inconclusive.push("position command failed".into());
                    return st;
                }
            };
            let mut seen = HashMap::new();
            for &t in TIMES.iter() {
                for &inc in INCS.iter() {
                    idx += 1;
                    if idx % ctx.workers != w {
                        continue;
                    }
                    // first the canonical command, then variants that differ only in the
                    // opponent's values, the token order and a trailing movestogo
                    one_case(&mut eng, &setting, black, (t, inc), (t, inc), &[0, 1, 2, 3], "", &mut st, &mut seen);
                    for _ in 0..variants {
                        let opp = (*rng.pick(&TIMES), *rng.pick(&INCS));
                        let order = *rng.pick(&all_perms);
                        let tail = if rng.chance(1, 4) { format!(" movestogo {}", rng.range(1, 40)) } else { String::new() };
                        one_case(&mut eng, &setting, black, (t, inc), opp, &order, &tail, &mut st, &mut seen);
                    }
                    // random (non-table) values too
                    let rt = rng.below(200_000);
                    let ri = rng.below(10_000);
                    for _ in 0..3 {
                        let opp = (rng.below(10_000_000), rng.below(100_000));
                        let order = *rng.pick(&all_perms);
                        one_case(&mut eng, &setting, black, (rt, ri), opp, &order, "", &mut st, &mut seen);
                    }
                }
            }
        }
        // other engine states: positions with few and many legal moves, engines that have already
        // run timed searches (the budget must keep its guarantees whatever the position and the
        // engine's history; nothing but the mover's clock may move it between two such commands)
        let n_settings = ctx.budget(6, 60);
        for k in 0..n_settings {
            if k >= 2 && ctx.past(0.5) {
                break;
            }
            // command HISTORIES before the go: the side to move is that of the position the engine holds NOW —
            // after ucinewgame the start position (White), after a later position command that one's —
            // whatever side was to move in an earlier game of the same process
            if k % 6 == 3 || k % 6 == 4 {
                let plies = 1 + 2 * rng.below(6) as usize;
                let (ps, ms) = crate::gen::playout(&crate::oracle::Pos::start(), &mut rng, plies);
                let g1: Vec<String> = ms.iter().map(|m| m.uci()).collect();
                let first = format!("position startpos moves {}", g1.join(" "));
                let _ = ps;
                let (seq, black) = match rng.below(4) {
                    0 => (format!("{} ; ucinewgame", first), false),
                    1 => (format!("{} ; ucinewgame ; position startpos moves e2e4 e7e5", first), false),
                    2 => (format!("{} ; position startpos", first), false),
                    _ => (format!("position startpos moves d2d4 d7d5 ; ucinewgame ; position startpos moves e2e4"), true),
                };
                let setting = Setting { position_cmd: seq, earlier_searches: *rng.pick(&[0u64, 0, 1, 2]) };
                if let Ok(mut eng) = setting.engine() {
                    st.bump("engine_states_other_than_a_fresh_start_position");
                    st.bump("engine_states_reached_through_an_earlier_game_and_ucinewgame_or_a_second_position_command");
                    let mut seen = HashMap::new();
                    for &t in TIMES.iter() {
                        for &inc in [0u64, 100, 5000].iter() {
                            one_case(&mut eng, &setting, black, (t, inc), (t, inc), &[0, 1, 2, 3], "", &mut st, &mut seen);
                            let opp = (*rng.pick(&TIMES), *rng.pick(&INCS));
                            let order = *rng.pick(&all_perms);
                            one_case(&mut eng, &setting, black, (t, inc), opp, &order, "", &mut st, &mut seen);
                        }
                    }
                }
                continue;
            }
            let p = match k % 6 {
                0 => crate::oracle::Pos::from_fen("r3k2r/p1ppqpb1/bn2pnp1/3PN3/1p2P3/2N2Q1p/PPPBBPPP/R3K2R w KQkq - 0 1").unwrap(),
                1 => crate::oracle::Pos::from_fen("R6R/3Q4/1Q4Q1/4Q3/2Q4Q/Q4Q2/pp1Q4/kBNN1KB1 w - - 0 1").unwrap(),
                2 => crate::gen::g_small(&mut rng, 5),
                _ => crate::gen::g_game_pos(&mut rng),
            };
            let nl = p.legal_moves().len();
            if nl == 0 {
                continue;
            }
            let black = p.stm == crate::oracle::BLACK;
            let setting = Setting { position_cmd: format!("position fen {}", p.to_fen()), earlier_searches: *rng.pick(&[0u64, 0, 1, 3, 12, 13, 20, 40]) };
            let mut eng = match setting.engine() {
                Ok(e) => e,
                Err(m) => {
                    st.inconclusive.push(format!("cannot bring an engine into the state ('{}', {} searches): {}", setting.position_cmd, setting.earlier_searches, m));
                    continue;
                }
            };
            st.bump("engine_states_other_than_a_fresh_start_position");
            if setting.earlier_searches >= 12 {
                st.bump("engine_states_after_12_or_more_timed_searches");
            }
            if nl > 30 {
                st.bump("engine_states_with_more_than_30_legal_moves");
            }
            if nl <= 3 {
                st.bump("engine_states_with_at_most_3_legal_moves");
            }
            let mut seen = HashMap::new();
            for &t in TIMES.iter() {
                for &inc in INCS.iter() {
                    one_case(&mut eng, &setting, black, (t, inc), (t, inc), &[0, 1, 2, 3], "", &mut st, &mut seen);
                    for _ in 0..2 {
                        let opp = (*rng.pick(&TIMES), *rng.pick(&INCS));
                        let order = *rng.pick(&all_perms);
                        one_case(&mut eng, &setting, black, (t, inc), opp, &order, "", &mut st, &mut seen);
                    }
                }
            }
        }
        st
    });
    let mut total = total;
    total.merge(c12_blackbox(ctx));
    finalize(ctx, spec, total)
}

/// End-to-end on the real release binary: with extreme clocks (little time left, large increment)
/// the CPU time consumed between `go` and `bestmove` must stay within the mover's remaining time
/// (plus a small constant) — CPU time never exceeds wall time for this single-threaded process.
fn c12_blackbox(ctx: &Ctx) -> Stats {
    use crate::bb;
    use std::time::Duration;
    let n = ctx.budget(16, 240);
    let workers = ctx.workers.min(8);
    parallel(workers, |w| {
        let mut st = Stats::new();
        let mut rng = Rng::new(ctx.seed, 1200 + w as u64);
        let mut eng = match bb::Engine::spawn(&ctx.engine_bin) {
            Ok(e) => e,
            Err(e) => {
                st.inconclusive.push(format!("cannot start the engine binary: {}", e));
                return st;
            }
        };
        for k in 0..(n / workers as u64 + 1) {
            if k >= 1 && ctx.out_of_time() {
                break;
            }
            let p = crate::gen::g_game_pos(&mut rng);
            if p.legal_moves().is_empty() {
                continue;
            }
            let black = p.stm == crate::oracle::BLACK;
            // mostly tiny clocks; one case per worker with seconds on the clock and a huge increment
            // (the budget is then almost the whole clock: an engine that treats it as a soft target
            // and keeps searching for a fraction more overruns by more than the slack)
            let big = k == 1;
            let remaining = if big { *rng.pick(&[2500u64, 4000]) } else { *rng.pick(&[0u64, 1, 40, 100, 300, 900]) };
            let inc = if big { 20_000 } else { *rng.pick(&[0u64, 500, 2000, 10_000]) };
            if big {
                st.bump("blackbox_go_with_seconds_on_the_clock_and_a_huge_increment");
            }
            let opp = *rng.pick(&[0u64, 1000, 60_000, 600_000]);
            let opp_inc = *rng.pick(&[0u64, 5000]);
            let (wt, wi, bt, bi) = if black { (opp, opp_inc, remaining, inc) } else { (remaining, inc, opp, opp_inc) };
            let mut pairs = vec![format!("wtime {}", wt), format!("btime {}", bt), format!("winc {}", wi), format!("binc {}", bi)];
            rng.shuffle(&mut pairs);
            let go = format!("go {}", pairs.join(" "));
            let script = vec![format!("position fen {}", p.to_fen()), go.clone()];
            let case = J::obj(vec![("kind", J::s("blackbox")), ("commands", J::arr_s(script.clone())), ("side_to_move", J::s(if black { "black" } else { "white" }))]);
            if eng.send(&script[0]).is_err() {
                break;
            }
            let cpu0 = eng.cpu_ms();
            let out = eng.command(&go, Duration::from_secs(30));
            let used = eng.cpu_ms().saturating_sub(cpu0);
            st.case(hash64(&(script.clone(), 12u8)), true);
            st.bump("blackbox_go_with_extreme_clocks");
            st.sample_tagged("blackbox", || case.clone());
            st.maxi("max_cpu_ms_used_beyond_remaining_time", used.saturating_sub(remaining));
            match out {
                Ok(_) | Err(bb::Fail::Timeout) => {
                    if used > remaining + 500 {
                        st.violation(
                            format!("C12:cpu-exceeds-clock:{}:{}", remaining, inc),
                            format!("'{}' ({} to move, {} ms left): the engine consumed {} ms of CPU before answering", go, if black { "black" } else { "white" }, remaining, used),
                            case,
                        );
                    } else if out.is_err() {
                        st.inconclusive.push(format!("no answer to '{}' within the watchdog and too little CPU consumed to decide", go));
                    }
                    if out.is_err() {
                        eng = match bb::Engine::spawn(&ctx.engine_bin) {
                            Ok(e) => e,
                            Err(_) => break,
                        };
                    }
                }
                Err(bb::Fail::Died(s)) => {
                    st.inconclusive.push(format!("engine ended ({}) during '{}' — C03 judges that", s, go));
                    eng = match bb::Engine::spawn(&ctx.engine_bin) {
                        Ok(e) => e,
                        Err(_) => break,
                    };
                }
            }
        }
        eng.quit();
        st
    })
}
