//! One monitor per property.
use crate::report::Ctx;

pub mod rules;

pub fn run(ctx: &Ctx) -> i32 {
    if let Err(e) = crate::selftest() {
        say!("INCONCLUSIVE: reference model self-test failed: {}", e);
        return 2;
    }
    match ctx.id.as_str() {
        "C01" | "C02" | "C17" => rules::run(ctx),
        other => {
            say!("INCONCLUSIVE: no monitor for property {}", other);
            2
        }
    }
}
