//! One monitor per property.
use crate::report::Ctx;

pub mod budget;
pub mod evalsym;
pub mod hashing;
pub mod interrupt;
pub mod position;
pub mod process;
pub mod rules;
pub mod search;
pub mod tables;
pub mod tt;

pub fn run(ctx: &Ctx) -> i32 {
    if let Err(e) = crate::selftest() {
        say!("INCONCLUSIVE: reference model self-test failed: {}", e);
        return 2;
    }
    if ctx.replay.as_ref().and_then(|r| r.get("case")).map(|c| c.str_of("kind") == "sanitizer").unwrap_or(false) {
        // replay of a sanitizer finding: the check script has re-run the sanitizer pass; its report
        // (if it reproduced) is turned into the verdict by finalize
        let mut st = crate::report::Stats::new();
        st.case(1, true);
        let spec = crate::report::Spec { level: "exploration", rule: "replay of a sanitizer finding", assumptions: vec![], required: vec![], exhaustive: false, extra: vec![] };
        return crate::report::finalize(ctx, spec, st);
    }
    match ctx.id.as_str() {
        "C01" | "C02" | "C17" => rules::run(ctx),
        "C03" => process::run_c03(ctx),
        "C13" => process::run_c13(ctx),
        "C16" => process::run_c16(ctx),
        "C04" => position::run_c04(ctx),
        "C09" => position::run_c09(ctx),
        "C05" => search::run_c05(ctx),
        "C06" | "C07" => interrupt::run(ctx),
        "C08" => search::run_c08(ctx),
        "C10" => tables::run(ctx),
        "C11" => hashing::run(ctx),
        "C12" => budget::run(ctx),
        "C14" => evalsym::run(ctx),
        "C15" => tt::run(ctx),
        other => {
            say!("INCONCLUSIVE: no monitor for property {}", other);
            2
        }
    }
}
