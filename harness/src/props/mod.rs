//! One monitor per property.
use crate::report::Ctx;

pub mod budget;
pub mod evalsym;
pub mod hashing;
pub mod rules;
pub mod tables;
pub mod tt;

pub fn run(ctx: &Ctx) -> i32 {
    if let Err(e) = crate::selftest() {
        say!("INCONCLUSIVE: reference model self-test failed: {}", e);
        return 2;
    }
    match ctx.id.as_str() {
        "C01" | "C02" | "C17" => rules::run(ctx),
        "C10" => tables::run(ctx),
        "C11" => hashing::run(ctx),
        "C12" => budget::run(ctx),
        "C14" => evalsym::run(ctx),
        "C15" => tt::run(ctx),
        other => {
            say!("INCONCLUSIVE: no monitor for property {}", other);
            2
        }
    }
}
