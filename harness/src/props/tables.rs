//! C10 — attack and line tables are exact for every square and occupancy.
//! Exhaustive over every subset of each square's rays (the only bits that can matter), plus random
//! full-board occupancies to observe that bits off the rays do not matter.
use crate::json::J;
use crate::lookup::LookupTable;
use crate::oracle::{file_of, on_board, rank_of, sq, sq_name};
use crate::pieces::Piece;
use crate::report::{engine_call, finalize, parallel, Ctx, Spec, Stats};
use crate::rng::{hash64, Rng};

const ROOK_D: [(i8, i8); 4] = [(1, 0), (0, 1), (-1, 0), (0, -1)];
const BISHOP_D: [(i8, i8); 4] = [(1, 1), (-1, 1), (-1, -1), (1, -1)];

/// squares reachable along open lines up to and including the first blocker
fn ray_walk(s: u8, occ: u64, dirs: &[(i8, i8)]) -> u64 {
    let mut out = 0u64;
    for (dx, dy) in dirs {
        let (mut x, mut y) = (file_of(s) + dx, rank_of(s) + dy);
        while on_board(x, y) {
            let t = sq(x, y);
            out |= 1u64 << t;
            if occ & (1u64 << t) != 0 {
                break;
            }
            x += dx;
            y += dy;
        }
    }
    out
}

fn full_rays(s: u8, dirs: &[(i8, i8)]) -> u64 {
    ray_walk(s, 0, dirs)
}

fn leaper(s: u8, deltas: &[(i8, i8)]) -> u64 {
    let mut out = 0;
    for (dx, dy) in deltas {
        let (x, y) = (file_of(s) + dx, rank_of(s) + dy);
        if on_board(x, y) {
            out |= 1u64 << sq(x, y);
        }
    }
    out
}

/// (interior of the segment, whole line through both squares incl. both) or None when not aligned
fn geometry(a: u8, b: u8) -> Option<(u64, u64)> {
    let (dx, dy) = (file_of(b) - file_of(a), rank_of(b) - rank_of(a));
    if !(dx == 0 || dy == 0 || dx.abs() == dy.abs()) || (dx == 0 && dy == 0) {
        return None;
    }
    let (sx, sy) = (dx.signum(), dy.signum());
    let mut interior = 0u64;
    let (mut x, mut y) = (file_of(a) + sx, rank_of(a) + sy);
    while sq(x, y) != b {
        interior |= 1u64 << sq(x, y);
        x += sx;
        y += sy;
    }
    let mut line = 1u64 << a;
    for s in [1i8, -1] {
        let (mut x, mut y) = (file_of(a) + s * sx, rank_of(a) + s * sy);
        while on_board(x, y) {
            line |= 1u64 << sq(x, y);
            x += s * sx;
            y += s * sy;
        }
    }
    Some((interior, line))
}

fn bits(bb: u64) -> Vec<u8> {
    (0..64u8).filter(|s| bb & (1u64 << s) != 0).collect()
}

fn subset(mask_bits: &[u8], idx: u64) -> u64 {
    let mut o = 0u64;
    for (i, b) in mask_bits.iter().enumerate() {
        if idx & (1 << i) != 0 {
            o |= 1u64 << b;
        }
    }
    o
}

fn check_slider(lt: &LookupTable, piece: Piece, name: &str, s: u8, occ: u64, st: &mut Stats, nontrivial: bool) {
    let want = match piece {
        Piece::Rook => ray_walk(s, occ, &ROOK_D),
        Piece::Bishop => ray_walk(s, occ, &BISHOP_D),
        _ => ray_walk(s, occ, &ROOK_D) | ray_walk(s, occ, &BISHOP_D),
    };
    st.case(hash64(&(name, s, occ)), nontrivial);
    match engine_call(|| lt.sliding_moves(s, occ, piece)) {
        Ok(got) if got == want => {}
        Ok(got) => st.violation(
            format!("C10:{}:{}:{:#018x}", name, sq_name(s), occ),
            format!("{} attacks from {} with occupancy {:#018x}: table {:#018x}, ray walk {:#018x}", name, sq_name(s), occ, got, want),
            J::obj(vec![("kind", J::s("slider")), ("piece", J::s(name)), ("square", J::i(s as i64)), ("occupancy", J::s(format!("{:#018x}", occ)))]),
        ),
        Err(msg) => st.violation(
            format!("C10:panic:{}:{}:{:#018x}", name, sq_name(s), occ),
            format!("{} lookup panicked on {} occupancy {:#018x}: {}", name, sq_name(s), occ, msg),
            J::obj(vec![("kind", J::s("slider")), ("piece", J::s(name)), ("square", J::i(s as i64)), ("occupancy", J::s(format!("{:#018x}", occ)))]),
        ),
    }
}

fn check_pair(lt: &LookupTable, a: u8, b: u8, st: &mut Stats) {
    if a == b {
        return;
    }
    let ends = (1u64 << a) | (1u64 << b);
    let geo = geometry(a, b);
    st.case(hash64(&("between", a, b)), geo.is_some());
    let seg = lt.between(a, b, true);
    let line = lt.between(a, b, false);
    let (want_seg_interior, want_line) = geo.unwrap_or((0, 0));
    // interior squares must be exact; the two end squares are accepted either way
    let seg_ok = if geo.is_some() { seg & !ends == want_seg_interior } else { seg == 0 };
    let line_ok = if geo.is_some() { line | ends == want_line } else { line == 0 };
    if !seg_ok {
        st.violation(
            format!("C10:segment:{}:{}", sq_name(a), sq_name(b)),
            format!("segment between {} and {}: table {:#018x}, geometry interior {:#018x}", sq_name(a), sq_name(b), seg, want_seg_interior),
            J::obj(vec![("kind", J::s("pair")), ("a", J::i(a as i64)), ("b", J::i(b as i64))]),
        );
    }
    if !line_ok {
        st.violation(
            format!("C10:line:{}:{}", sq_name(a), sq_name(b)),
            format!("whole line through {} and {}: table {:#018x}, geometry {:#018x}", sq_name(a), sq_name(b), line, want_line),
            J::obj(vec![("kind", J::s("pair")), ("a", J::i(a as i64)), ("b", J::i(b as i64))]),
        );
    }
    if geo.is_some() {
        st.bump("aligned_pairs");
    } else {
        st.bump("non_aligned_pairs");
    }
}

const KNIGHT_D: [(i8, i8); 8] = [(1, 2), (2, 1), (2, -1), (1, -2), (-1, -2), (-2, -1), (-2, 1), (-1, 2)];
const KING_D: [(i8, i8); 8] = [(1, 0), (1, 1), (0, 1), (-1, 1), (-1, 0), (-1, -1), (0, -1), (1, -1)];

pub fn run(ctx: &Ctx) -> i32 {
    let spec = Spec {
        level: "exploration",
        rule: "cases are (piece, square, occupancy) lookups compared with a ray walk and (square, square) pairs compared with collinearity geometry; rook and bishop: EVERY subset of the full rays of EVERY square (the only bits that can influence the result), queen: every subset of the rook rays with no diagonal blockers and of the bishop rays with no straight blockers plus random cross products; all 64 knight and king squares; all 64x63 ordered pairs; plus random 64-bit occupancies where additionally f(occ) == f(occ & rays(sq)) is checked. Distinct by (piece, square, occupancy); non-trivial when at least one blocker is on a ray / the pair is aligned",
        assumptions: vec![
            "the ray-walking and geometric reference functions in harness/src/props/tables.rs are correct (a dozen lines each, independent of the engine's tables)".into(),
            "exhaustive over ray subsets; occupancy bits off the rays are covered by random sampling together with the observable identity f(occ) == f(occ & rays)".into(),
        ],
        required: if ctx.replay.is_some() { vec![] } else { vec!["rook_subsets", "bishop_subsets", "queen_cases", "random_occupancies", "aligned_pairs", "non_aligned_pairs", "leaper_squares"] },
        exhaustive: ctx.replay.is_none(),
        extra: vec![],
    };
    if let Some(r) = ctx.replay.as_ref() {
        let mut st = Stats::new();
        let lt = LookupTable::init();
        if let Some(c) = r.get("case") {
            match c.str_of("kind").as_str() {
                "pair" => check_pair(&lt, c.int_of("a") as u8, c.int_of("b") as u8, &mut st),
                "leaper" => leapers(&lt, &mut st),
                _ => {
                    let occ = u64::from_str_radix(c.str_of("occupancy").trim_start_matches("0x"), 16).unwrap_or(0);
                    let (piece, name) = match c.str_of("piece").as_str() {
                        "rook" => (Piece::Rook, "rook"),
                        "bishop" => (Piece::Bishop, "bishop"),
                        _ => (Piece::Queen, "queen"),
                    };
                    check_slider(&lt, piece, name, c.int_of("square") as u8, occ, &mut st, true);
                }
            }
        }
        return finalize(ctx, spec, st);
    }
    let randoms = ctx.budget(16_000_000, 600_000_000) / ctx.workers as u64;
    let total = parallel(ctx.workers, |w| {
        let mut st = Stats::new();
        let lt = match engine_call(LookupTable::init) {
            Ok(l) => l,
            Err(m) => {
                st.violation("C10:init-panic", format!("table construction panicked: {}", m), J::obj(vec![("kind", J::s("leaper"))]));
                return st;
            }
        };
        let mut rng = Rng::new(ctx.seed, 100 + w as u64);
        for s in (0..64u8).filter(|s| *s as usize % ctx.workers == w) {
            let rb = bits(full_rays(s, &ROOK_D));
            for idx in 0..(1u64 << rb.len()) {
                check_slider(&lt, Piece::Rook, "rook", s, subset(&rb, idx), &mut st, idx != 0);
                check_slider(&lt, Piece::Queen, "queen", s, subset(&rb, idx), &mut st, idx != 0);
                st.bump("rook_subsets");
                st.bump("queen_cases");
            }
            let bbits = bits(full_rays(s, &BISHOP_D));
            for idx in 0..(1u64 << bbits.len()) {
                check_slider(&lt, Piece::Bishop, "bishop", s, subset(&bbits, idx), &mut st, idx != 0);
                check_slider(&lt, Piece::Queen, "queen", s, subset(&bbits, idx), &mut st, idx != 0);
                st.bump("bishop_subsets");
                st.bump("queen_cases");
            }
            // queen: random cross products of straight and diagonal blockers
            for _ in 0..20_000 {
                let occ = subset(&rb, rng.next()) | subset(&bbits, rng.next());
                check_slider(&lt, Piece::Queen, "queen", s, occ, &mut st, true);
                st.bump("queen_cases");
            }
            for b in 0..64u8 {
                check_pair(&lt, s, b, &mut st);
            }
            st.sample_tagged(if w == 0 { "first" } else { "other" }, || {
                J::obj(vec![("square", J::s(sq_name(s))), ("rook_ray_bits", J::i(rb.len() as i64)), ("bishop_ray_bits", J::i(bbits.len() as i64))])
            });
        }
        if w == 0 {
            leapers(&lt, &mut st);
        }
        // random full-board occupancies: bits off the rays must not matter
        for _ in 0..randoms {
            let s = rng.below(64) as u8;
            let mut occ = rng.next();
            match rng.below(4) {
                0 => occ &= rng.next(),
                1 => occ &= rng.next() & rng.next(),
                _ => {}
            }
            for (piece, name, dirs) in [(Piece::Rook, "rook", &ROOK_D[..]), (Piece::Bishop, "bishop", &BISHOP_D[..])] {
                check_slider(&lt, piece, name, s, occ, &mut st, true);
                let masked = occ & full_rays(s, dirs);
                let (a, b) = (lt.sliding_moves(s, occ, piece), lt.sliding_moves(s, masked, piece));
                if a != b {
                    st.violation(
                        format!("C10:offray:{}:{}:{:#018x}", name, sq_name(s), occ),
                        format!("{} attacks from {} depend on bits off its rays: occ {:#018x} -> {:#018x}, occ&rays -> {:#018x}", name, sq_name(s), occ, a, b),
                        J::obj(vec![("kind", J::s("slider")), ("piece", J::s(name)), ("square", J::i(s as i64)), ("occupancy", J::s(format!("{:#018x}", occ)))]),
                    );
                }
            }
            check_slider(&lt, Piece::Queen, "queen", s, occ, &mut st, true);
            st.bump("random_occupancies");
        }
        st
    });
    finalize(ctx, spec, total)
}

fn leapers(lt: &LookupTable, st: &mut Stats) {
    for s in 0..64u8 {
        for (piece, name, d) in [(Piece::Knight, "knight", &KNIGHT_D), (Piece::King, "king", &KING_D)] {
            let want = leaper(s, d);
            let got = lt.non_sliding_moves(s, piece);
            st.case(hash64(&(name, s)), true);
            st.bump("leaper_squares");
            if got != want {
                st.violation(
                    format!("C10:{}:{}", name, sq_name(s)),
                    format!("{} attack set on {}: table {:#018x}, geometry {:#018x}", name, sq_name(s), got, want),
                    J::obj(vec![("kind", J::s("leaper"))]),
                );
            }
        }
    }
}
