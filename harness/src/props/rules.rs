//! C01 (generated moves == legal moves), C02 (make_move == successor), C17 (quiescence move set):
//! differential monitors against the reference rules on generated positions and game histories.
use crate::board::Board;
use crate::eng::{self, compare_board, move_strings};
use crate::gen;
use crate::json::J;
use crate::move_gen::MoveGenerator;
use crate::moves::Move;
use crate::oracle::{self, Mv, MvKind, Pos};
use crate::report::{engine_call, finalize, parallel, Ctx, Spec, Stats};
use crate::rng::{hash64, Rng};
use crate::search::Searcher;

#[derive(Clone, Copy, PartialEq)]
enum Which {
    C01,
    C02,
    C17,
}

impl Which {
    fn id(&self) -> &'static str {
        match self {
            Which::C01 => "C01",
            Which::C02 => "C02",
            Which::C17 => "C17",
        }
    }
}

fn replay_pos(p: &Pos, origin: &str, extra: Vec<(&str, J)>) -> J {
    let mut v = vec![("kind", J::s("position")), ("fen", J::s(p.to_fen())), ("origin", J::s(origin))];
    v.extend(extra);
    J::obj(v)
}

fn diff_sets(engine: &[String], oracle: &[String]) -> (Vec<String>, Vec<String>, Vec<String>) {
    let mut dup = vec![];
    for w in engine.windows(2) {
        if w[0] == w[1] && !dup.contains(&w[0]) {
            dup.push(w[0].clone());
        }
    }
    let extra: Vec<String> = engine.iter().filter(|m| !oracle.contains(m)).cloned().collect();
    let missing: Vec<String> = oracle.iter().filter(|m| !engine.contains(m)).cloned().collect();
    (dup, extra, missing)
}

/// C01 on one position held in engine board `b` (which must represent `p`).
fn c01_position(p: &Pos, legal: &[Mv], b: &Board, mg: &MoveGenerator, st: &mut Stats, origin: &str) {
    let want = gen::describe_moves(legal);
    match engine_call(|| (mg.generate_moves(b), mg.is_in_check(b))) {
        Err(msg) => st.violation(
            format!("C01:panic:{}", p.to_fen()),
            format!("generate_moves panicked on {} ({}): {}", p.to_fen(), origin, msg),
            replay_pos(p, origin, vec![("panic", J::s(msg.clone()))]),
        ),
        Ok((ms, chk)) => {
            let got = move_strings(&ms);
            if got != want {
                let (dup, extra, missing) = diff_sets(&got, &want);
                st.violation(
                    format!("C01:moveset:{}", p.to_fen()),
                    format!(
                        "move set differs on {} ({}): duplicated {:?}, engine-only (illegal) {:?}, missing {:?}",
                        p.to_fen(),
                        origin,
                        dup,
                        extra,
                        missing
                    ),
                    replay_pos(
                        p,
                        origin,
                        vec![("duplicated", J::arr_s(dup)), ("engine_only", J::arr_s(extra)), ("missing", J::arr_s(missing))],
                    ),
                );
            }
            if chk != p.in_check() {
                st.violation(
                    format!("C01:incheck:{}", p.to_fen()),
                    format!("is_in_check says {} but the rules say {} on {} ({})", chk, p.in_check(), p.to_fen(), origin),
                    replay_pos(p, origin, vec![("engine_in_check", J::Bool(chk))]),
                );
            }
        }
    }
}


/// Call-history independence, in the order a search uses the generator: for the successors S1..Sk of
/// one position (siblings: they share most of the board; promotion alternatives even share the whole
/// occupancy), ask is_in_check(Si) and then generate_moves (or the tactical list) of the NEXT sibling
/// on the same long-lived generator. Every answer is compared with the reference rules, so anything
/// remembered from the previous call shows.
fn sibling_pass(which: Which, p: &Pos, legal: &[Mv], mg: &MoveGenerator, st: &mut Stats, origin: &str) {
    if legal.len() < 2 {
        return;
    }
    let succ: Vec<Pos> = legal.iter().map(|m| p.make(m)).collect();
    let boards: Vec<Board> = succ.iter().map(|q| Board::new(&q.to_fen())).collect();
    st.bump("sibling_passes");
    if legal.iter().filter(|m| m.promo != 0).count() >= 2 {
        st.bump("sibling_passes_with_promotion_alternatives");
    }
    for i in 0..succ.len() {
        let j = (i + 1) % succ.len();
        let (qi, qj) = (&succ[i], &succ[j]);
        let lj = qj.legal_moves();
        crate::report::note_case(&format!("is_in_check({}) then generate_moves({})", qi.to_fen(), qj.to_fen()));
        let r = engine_call(|| {
            let chk = mg.is_in_check(&boards[i]);
            let ms = if matches!(which, Which::C17) && !qj.in_check() { mg.generate_quiescence_moves(&boards[j]) } else { mg.generate_moves(&boards[j]) };
            (chk, ms)
        });
        st.bump("sibling_call_pairs");
        let case = |extra: Vec<(&str, J)>| {
            let mut v = vec![("kind", J::s("sibling")), ("fen", J::s(p.to_fen())), ("origin", J::s(origin)), ("checked_first", J::s(qi.to_fen())), ("generated_next", J::s(qj.to_fen()))];
            v.extend(extra);
            J::obj(v)
        };
        match r {
            Err(msg) => {
                st.violation(format!("{}:panic-sibling:{}", which.id(), qj.to_fen()), format!("is_in_check({}) then move generation on {} panicked: {}", qi.to_fen(), qj.to_fen(), msg), case(vec![]));
                return;
            }
            Ok((chk, ms)) => {
                if matches!(which, Which::C01) && chk != qi.in_check() {
                    st.violation(format!("C01:incheck-sibling:{}", qi.to_fen()), format!("is_in_check says {} but the rules say {} on {} (asked right after generating moves of a sibling position)", chk, qi.in_check(), qi.to_fen()), case(vec![]));
                    return;
                }
                let want = if matches!(which, Which::C17) && !qj.in_check() { gen::describe_moves(&tactical(qj, &lj)) } else { gen::describe_moves(&lj) };
                let got = move_strings(&ms);
                if got != want {
                    let (dup, extra, missing) = diff_sets(&got, &want);
                    st.violation(
                        format!("{}:moveset-sibling:{}", which.id(), qj.to_fen()),
                        format!(
                            "after is_in_check({}) on the same generator, the move list of the sibling position {} differs from the rules: duplicated {:?}, engine-only {:?}, missing {:?}",
                            qi.to_fen(),
                            qj.to_fen(),
                            dup,
                            extra,
                            missing
                        ),
                        case(vec![("engine_only", J::arr_s(extra)), ("missing", J::arr_s(missing))]),
                    );
                    return;
                }
            }
        }
    }
}

/// C02 on one position: apply every legal move with clone_with_move and compare successors.
fn c02_position(p: &Pos, legal: &[Mv], b: &Board, mg: &MoveGenerator, st: &mut Stats, origin: &str) {
    let ms = match engine_call(|| mg.generate_moves(b)) {
        Ok(ms) => ms,
        Err(_) => return, // C01's concern
    };
    for om in legal {
        let u = om.uci();
        let em = match ms.iter().find(|m| m.to_algebraic() == u) {
            Some(m) => *m,
            None => continue, // C01's concern
        };
        let want = p.make(om);
        st.bump("moves_applied");
        match engine_call(|| b.clone_with_move(&em)) {
            Err(msg) => st.violation(
                format!("C02:panic:{}:{}", p.to_fen(), u),
                format!("make_move panicked on {} move {}: {}", p.to_fen(), u, msg),
                replay_pos(p, origin, vec![("move", J::s(u.clone())), ("panic", J::s(msg.clone()))]),
            ),
            Ok(nb) => {
                if let Err(why) = compare_board(&nb, &want) {
                    st.violation(
                        format!("C02:successor:{}:{}", p.to_fen(), u),
                        format!("after {} on {} ({}): {}; rules give {}", u, p.to_fen(), origin, why, want.to_fen()),
                        replay_pos(p, origin, vec![("move", J::s(u.clone())), ("why", J::s(why)), ("expected", J::s(want.to_fen()))]),
                    );
                }
            }
        }
    }
}

fn tactical(p: &Pos, legal: &[Mv]) -> Vec<Mv> {
    legal.iter().filter(|m| p.is_capture(m) || m.promo != 0 || p.gives_check(m)).cloned().collect()
}

/// C17 first half: generate_quiescence_moves on a position whose side to move is not in check.
fn c17_position(p: &Pos, legal: &[Mv], b: &Board, mg: &MoveGenerator, st: &mut Stats, origin: &str) {
    if p.in_check() {
        st.bump("skipped_in_check_for_generator_half");
        return;
    }
    let tac = tactical(p, legal);
    let want = gen::describe_moves(&tac);
    for m in &tac {
        if m.kind == MvKind::EnPassant {
            st.bump("q_ep_capture");
        }
        if m.promo != 0 {
            st.bump("q_promotion");
        }
        if !p.is_capture(m) && m.promo == 0 {
            st.bump("q_quiet_check");
            // discovered: the moved piece itself does not attack the king afterwards
            let n = p.make(m);
            let ks = n.king_sq(n.stm).unwrap();
            let mut only_mover = n.clone();
            for s in 0..64 {
                let q = only_mover.sq[s];
                if q != 0 && oracle::color(q) == p.stm && s as u8 != m.to && oracle::kind(q) != oracle::K {
                    only_mover.sq[s] = 0;
                }
            }
            if !only_mover.attacked(ks, p.stm) {
                st.bump("q_discovered_check");
            }
        }
    }
    match engine_call(|| mg.generate_quiescence_moves(b)) {
        Err(msg) => st.violation(
            format!("C17:panic:{}", p.to_fen()),
            format!("generate_quiescence_moves panicked on {}: {}", p.to_fen(), msg),
            replay_pos(p, origin, vec![("panic", J::s(msg.clone()))]),
        ),
        Ok(ms) => {
            let got = move_strings(&ms);
            if got != want {
                let (dup, extra, missing) = diff_sets(&got, &want);
                st.violation(
                    format!("C17:qset:{}", p.to_fen()),
                    format!(
                        "quiescence move set differs on {} ({}): duplicated {:?}, engine-only {:?}, missing {:?}",
                        p.to_fen(),
                        origin,
                        dup,
                        extra,
                        missing
                    ),
                    replay_pos(p, origin, vec![("engine_only", J::arr_s(extra)), ("missing", J::arr_s(missing)), ("duplicated", J::arr_s(dup))]),
                );
            }
        }
    }
}

pub fn pos_from_board(b: &Board) -> Result<Pos, String> {
    let r = eng::read_board(b)?;
    Ok(Pos { sq: r.sq, stm: r.stm, castle: r.castle, ep: r.ep, half: 0, full: 1 })
}

/// C17 second half: the moves really examined at every quiescence node of a real search.
fn c17_search_log(p: &Pos, depth: u8, st: &mut Stats, origin: &str) {
    c17_search_log_after(&[], None, p, depth, st, origin, false)
}

/// Direct form: search `p` to `depth` on a fresh engine (every searched node now has a table entry with its
/// best move — quiet moves and castles among them), then run the engine's own quiescence search, logged, on
/// `p` and on every position the main search expanded: what it examines there must still be exactly the
/// tactical moves, whatever the tables remember about those positions.
fn c17_quiesce_after_search(p: &Pos, depth: u8, st: &mut Stats, origin: &str) {
    c17_search_log_after(&[(p.clone(), depth)], None, p, depth, st, origin, true)
}

/// `earlier`: positions (with depths) searched first on the SAME engine without logging — as in a
/// game, where the positions now past the horizon were interior nodes of the previous search and
/// have entries in the engine's tables.
/// `game_cmd`: a position command (a game leading to `p`) given to the engine's own handler first, so
/// that the search runs with the game history on record.
fn c17_search_log_after(earlier: &[(Pos, u8)], game_cmd: Option<&str>, p: &Pos, depth: u8, st: &mut Stats, origin: &str, direct: bool) {
    let b = eng::board_from_pos(p);
    let r = engine_call(|| {
        let mut holder = crate::uci::Flounder::new();
        if let Some(cmd) = game_cmd {
            holder.verif_handle_command(cmd);
        }
        let s = holder.verif_searcher();
        if direct {
            s.verif.nlog = Some(Vec::new());
        }
        for (q, d) in earlier.iter() {
            s.verif_timer().node_limit = Some(150_000);
            s.find_best_move(&eng::board_from_pos(q), *d, None);
        }
        if direct {
            // quiescence called directly on the root and on the positions the main search expanded
            let nl = s.verif.nlog.take().unwrap_or_default();
            let mut seen = std::collections::HashSet::new();
            let mut targets = vec![b];
            for (nb, _, rem, how) in nl.iter() {
                if *how == 2 && *rem >= 1 && targets.len() < 120 {
                    if let Ok(q) = pos_from_board(nb) {
                        if seen.insert(q.key()) {
                            targets.push(*nb);
                        }
                    }
                }
            }
            s.verif.qlog = Some(Vec::new());
            s.verif.qexamined = Some(Vec::new());
            let (lo, hi) = Searcher::verif_window();
            for t in targets.iter() {
                let now = s.verif_nodes();
                s.verif_timer().node_limit = Some(now + 4_000);
                s.verif_quiesce(t, lo, hi);
            }
            s.verif_timer().node_limit = None;
            return (s.verif.qlog.take().unwrap(), s.verif.qexamined.take().unwrap(), targets.len());
        }
        s.verif.qlog = Some(Vec::new());
        s.verif.qexamined = Some(Vec::new());
        s.verif_timer().node_limit = Some(60_000); // bounds the log; an interrupted search still logs real nodes
        s.find_best_move(&b, depth, None);
        (s.verif.qlog.take().unwrap(), s.verif.qexamined.take().unwrap(), 0)
    });
    let r = r.map(|(a, b2, n)| {
        if direct {
            st.add("quiescence_called_directly_on_positions_the_main_search_had_expanded", n as u64);
        }
        (a, b2)
    });
    let (log, examined) = match r {
        Ok(l) => l,
        Err(msg) => {
            st.violation(
                format!("C17:searchpanic:{}", p.to_fen()),
                format!("search panicked on {} depth {}: {}", p.to_fen(), depth, msg),
                replay_pos(p, origin, vec![("depth", J::i(depth as i64)), ("panic", J::s(msg.clone()))]),
            );
            return;
        }
    };
    st.bump("searches_logged");
    // second event log: every (position, move) the quiescence search really recursed into must be a
    // member of the expected set of that position (a subset is normal: cut-offs end a node early)
    {
        let mut expected: std::collections::HashMap<oracle::PosKey, Vec<String>> = std::collections::HashMap::new();
        for (qb, mv) in examined.iter() {
            let qp = match pos_from_board(qb) {
                Ok(q) => q,
                Err(_) => continue,
            };
            let want = expected.entry(qp.key()).or_insert_with(|| {
                let legal = qp.legal_moves();
                if qp.in_check() {
                    gen::describe_moves(&legal)
                } else {
                    gen::describe_moves(&tactical(&qp, &legal))
                }
            });
            st.bump("quiescence_recursions_logged");
            let u = mv.to_algebraic();
            if !want.contains(&u) {
                st.violation(
                    format!("C17:qexamined:{}:{}", qp.to_fen(), u),
                    format!(
                        "past the horizon the search examined {} at {} ({}), which is {} [root {} depth {}]",
                        u,
                        qp.to_fen(),
                        if qp.in_check() { "in check" } else { "not in check" },
                        if qp.find_uci(&u).is_some() { "a legal move that neither captures, promotes nor gives check" } else { "not a legal move" },
                        p.to_fen(),
                        depth
                    ),
                    J::obj(vec![
                        ("kind", J::s("qlog")),
                        ("fen", J::s(p.to_fen())),
                        ("depth", J::i(depth as i64)),
                        ("earlier", J::Arr(earlier.iter().map(|(q, d)| J::obj(vec![("fen", J::s(q.to_fen())), ("depth", J::i(*d as i64))])).collect())),
                        ("game_command", J::s(game_cmd.unwrap_or(""))),
                        ("direct", J::Bool(direct)),
                        ("node", J::s(qp.to_fen())),
                        ("examined_move", J::s(u.clone())),
                    ]),
                );
            }
        }
    }
    for (qb, in_check, moves) in log.iter() {
        st.bump("qnodes_logged");
        let qp = match pos_from_board(qb) {
            Ok(q) => q,
            Err(_) => continue,
        };
        let legal = qp.legal_moves();
        let rules_check = qp.in_check();
        let want = if rules_check {
            st.bump("qnodes_in_check");
            gen::describe_moves(&legal)
        } else {
            st.bump("qnodes_not_in_check");
            gen::describe_moves(&tactical(&qp, &legal))
        };
        let got = move_strings(moves);
        st.case(hash64(&(qp.key(), 17u8)), !want.is_empty());
        if got != want || *in_check != rules_check {
            let (dup, extra, missing) = diff_sets(&got, &want);
            st.violation(
                format!("C17:qnode:{}", qp.to_fen()),
                format!(
                    "search examined a wrong move set past the horizon at {} (in check: engine {}, rules {}): engine-only {:?}, missing {:?}, duplicated {:?} [root {} depth {}]",
                    qp.to_fen(),
                    in_check,
                    rules_check,
                    extra,
                    missing,
                    dup,
                    p.to_fen(),
                    depth
                ),
                J::obj(vec![
                    ("kind", J::s("qlog")),
                    ("fen", J::s(p.to_fen())),
                    ("depth", J::i(depth as i64)),
                    ("earlier", J::Arr(earlier.iter().map(|(q, d)| J::obj(vec![("fen", J::s(q.to_fen())), ("depth", J::i(*d as i64))])).collect())),
                    ("game_command", J::s(game_cmd.unwrap_or(""))),
                    ("direct", J::Bool(direct)),
                    ("node", J::s(qp.to_fen())),
                    ("engine_only", J::arr_s(extra)),
                    ("missing", J::arr_s(missing)),
                ]),
            );
        }
    }
}

fn visit(which: Which, p: &Pos, b: &Board, mg: &MoveGenerator, st: &mut Stats, origin: &str) {
    let legal = p.legal_moves();
    let feats = gen::features(p, &legal);
    for f in feats.iter() {
        st.bump(f);
    }
    crate::report::note_case(&p.to_fen());
    st.bump(&format!("src_{}", origin));
    st.maxi("max_legal_moves_in_one_position", legal.len() as u64);
    let nontrivial = match which {
        Which::C01 => !feats.is_empty(),
        Which::C02 => !legal.is_empty(),
        Which::C17 => !p.in_check() && !legal.is_empty(),
    };
    st.case(hash64(&p.key()), nontrivial);
    st.sample_tagged(origin, || J::obj(vec![("fen", J::s(p.to_fen())), ("origin", J::s(origin)), ("legal_moves", J::i(legal.len() as i64))]));
    match which {
        Which::C01 => c01_position(p, &legal, b, mg, st, origin),
        Which::C02 => c02_position(p, &legal, b, mg, st, origin),
        Which::C17 => c17_position(p, &legal, b, mg, st, origin),
    }
    // every 16th position (and every position with promotion alternatives, which share their whole
    // occupancy): the sibling pass on the same long-lived generator
    if !matches!(which, Which::C02) {
        let promo_alternatives = legal.iter().filter(|m| m.promo != 0).count() >= 2;
        if origin == "replay-sibling" || (promo_alternatives && st.evals % 4 == 0) || st.evals % 16 == 0 {
            sibling_pass(which, p, &legal, mg, st, origin);
        }
    }
}

/// A game played on ONE engine board mutated in place; after every ply the board is compared with
/// the reference game (stale rights / ghost pieces accumulate visibly) and is itself used as the
/// position under test.
fn history(which: Which, start: &Pos, rng: &mut Rng, plies: usize, mg: &MoveGenerator, st: &mut Stats, origin: &str) {
    let mut cur = start.clone();
    // the move counters of a FEN are part of the input: give half of the games hostile ones
    // (the legal moves and successors of a position do not depend on them below the 75-move limit)
    if rng.chance(1, 2) {
        cur.half = *rng.pick(&[0u32, 1, 49, 50, 98, 99, 100, 101, 120]);
        cur.full = *rng.pick(&[1u32, 2, 60, 255, 256, 1000, 5899]);
        st.bump("games_started_with_hostile_move_counters");
    }
    let start = &cur.clone();
    let mut gb = eng::board_from_pos(start);
    let mut played: Vec<String> = vec![];
    st.bump("histories");
    for ply in 0..plies {
        // position under test: the in-place board (and, every 4th ply, one rebuilt from FEN)
        visit(which, &cur, &gb, mg, st, origin);
        if ply % 4 == 0 && which != Which::C02 {
            // below the 75-move limit (at 150 the game is over by rule and "legal moves" is moot)
            let mut capped = cur.clone();
            capped.half = capped.half.min(140);
            let fb = eng::board_from_pos(&capped);
            visit(which, &cur, &fb, mg, st, "rebuilt_from_fen");
        }
        let legal = cur.legal_moves();
        if legal.is_empty() || cur.piece_count() <= 2 {
            break;
        }
        let m = gen::pick_move(&cur, &legal, rng);
        let u = m.uci();
        let ms = match engine_call(|| mg.generate_moves(&gb)) {
            Ok(ms) => ms,
            Err(_) => break,
        };
        let em = match ms.iter().find(|x| x.to_algebraic() == u) {
            Some(x) => *x,
            None => break, // C01's concern (reported by visit)
        };
        if engine_call(|| gb.make_move(&em)).is_err() {
            break; // reported by C02's visit of this position
        }
        cur = cur.make(&m);
        played.push(u);
        st.maxi("max_history_plies", played.len() as u64);
        if which == Which::C02 {
            st.bump("inplace_plies_compared");
            if let Err(why) = compare_board(&gb, &cur) {
                st.violation(
                    format!("C02:history:{}:{}", start.to_fen(), played.join(",")),
                    format!(
                        "board mutated in place diverged from the game after {} plies from {}: {} (last move {})",
                        played.len(),
                        start.to_fen(),
                        why,
                        played.last().unwrap()
                    ),
                    J::obj(vec![
                        ("kind", J::s("history")),
                        ("fen", J::s(start.to_fen())),
                        ("moves", J::arr_s(played.clone())),
                        ("why", J::s(why)),
                    ]),
                );
                break;
            }
        }
    }
}

fn replay(ctx: &Ctx, which: Which, case: &J, mg: &MoveGenerator, st: &mut Stats) {
    let fen = case.str_of("fen");
    let p = match Pos::from_fen(&fen) {
        Ok(p) => p,
        Err(e) => {
            st.inconclusive.push(format!("replay: bad fen: {}", e));
            return;
        }
    };
    match case.str_of("kind").as_str() {
        "history" => {
            let mut cur = p.clone();
            let mut gb = eng::board_from_pos(&p);
            let mut played = vec![];
            for mvj in case.get("moves").and_then(|m| m.as_arr()).cloned().unwrap_or_default() {
                let u = mvj.as_str().unwrap_or("").to_string();
                let om = match cur.find_uci(&u) {
                    Some(m) => m,
                    None => break,
                };
                let ms = mg.generate_moves(&gb);
                if let Some(em) = ms.iter().find(|x| x.to_algebraic() == u) {
                    let em = *em;
                    let _ = engine_call(|| gb.make_move(&em));
                }
                cur = cur.make(&om);
                played.push(u);
                st.case(hash64(&cur.key()), true);
                if let Err(why) = compare_board(&gb, &cur) {
                    st.violation(
                        format!("C02:history:{}:{}", p.to_fen(), played.join(",")),
                        format!("board diverged after {} plies: {}", played.len(), why),
                        case.clone(),
                    );
                    break;
                }
            }
        }
        "qlog" => {
            let earlier: Vec<(Pos, u8)> = case.get("earlier").and_then(|a| a.as_arr()).map(|a| a.iter().filter_map(|e| Pos::from_fen(&e.str_of("fen")).ok().map(|q| (q, e.int_of("depth") as u8))).collect()).unwrap_or_default();
            let gc = case.str_of("game_command");
            let direct = matches!(case.get("direct"), Some(J::Bool(true)));
            c17_search_log_after(&earlier, if gc.is_empty() { None } else { Some(gc.as_str()) }, &p, case.int_of("depth") as u8, st, "replay", direct)
        }
        "sibling" => {
            let b = eng::board_from_pos(&p);
            visit(which, &p, &b, mg, st, "replay-sibling");
        }
        _ => {
            let b = eng::board_from_pos(&p);
            visit(which, &p, &b, mg, st, "replay");
        }
    }
    let _ = ctx;
}

pub fn run(ctx: &Ctx) -> i32 {
    let which = match ctx.id.as_str() {
        "C01" => Which::C01,
        "C02" => Which::C02,
        _ => Which::C17,
    };
    if let Some(r) = ctx.replay.as_ref() {
        let mg = MoveGenerator::new();
        let mut st = Stats::new();
        if let Some(case) = r.get("case") {
            replay(ctx, which, case, &mg, &mut st);
        }
        return finalize(ctx, spec(which, true), st);
    }
    let budget = match which {
        Which::C01 => ctx.budget(8_000_000, 200_000_000),
        Which::C02 => ctx.budget(1_500_000, 40_000_000),
        Which::C17 => ctx.budget(3_000_000, 80_000_000),
    };
    let per_worker = budget / ctx.workers as u64 + 1;
    let qsearches = ctx.budget(320, 6400) / ctx.workers as u64 + 1;
    let total = parallel(ctx.workers, |w| {
        let mut st = Stats::new();
        let mut rng = Rng::new(ctx.seed, w as u64 + 1);
        let mg = MoveGenerator::new();
        // the corpus first (guarantees every required feature for every seed)
        for i in 0..gen::CORPUS.len() {
            if i % ctx.workers == w {
                let p = gen::corpus_pos(i);
                let b = eng::board_from_pos(&p);
                visit(which, &p, &b, &mg, &mut st, "corpus");
                history(which, &p, &mut rng, 40, &mg, &mut st, "corpus_game");
            }
        }
        // slider-table sweep: every (square, rook|bishop, occupancy of the relevant ray squares) once
        // (thorough: four times) inside a valid position — all ~108 000 entries a magic-bitboard
        // engine answers slider questions from, not only the ones random play happens to reach
        {
            let n_entries = gen::slider_entry_count();
            let (stride, variants) = match (which, ctx.quick()) {
                (Which::C01, true) => (1u64, 2),
                (Which::C01, false) => (1, 6),
                (_, true) => (4, 2),
                (_, false) => (1, 2),
            };
            let mut i = w as u64 * stride;
            while i < n_entries && !ctx.past(0.5) {
                let (sq, rook, subset) = gen::slider_entry(i);
                for v in 0..variants {
                    match gen::g_slider_entry(sq, rook, subset, v == 0, &mut rng) {
                        Some(p) => {
                            let b = eng::board_from_pos(&p);
                            st.bump("slider_table_entries_visited");
                            visit(which, &p, &b, &mg, &mut st, "slider_table_sweep");
                        }
                        None => st.bump("slider_table_entries_without_a_valid_arrangement"),
                    }
                }
                i += ctx.workers as u64 * stride;
            }
            if i < n_entries {
                st.bump("slider_table_sweep_cut_short_by_the_time_slice");
            }
        }
        while st.evals < per_worker && !ctx.past(if which == Which::C17 { 0.75 } else { 1.0 }) {
            match rng.below(100) {
                0..=3 => {
                    let n = rng.range(20, 300) as usize;
                    history(which, &Pos::start(), &mut rng, n, &mg, &mut st, "game_from_start");
                }
                4..=9 => {
                    let p = gen::corpus_pos(rng.below(gen::CORPUS.len() as u64) as usize);
                    history(which, &p, &mut rng, 80, &mg, &mut st, "corpus_game");
                }
                10..=49 => {
                    let p = gen::synth(&mut rng);
                    history(which, &p, &mut rng, 8, &mg, &mut st, "synthetic");
                }
                50..=67 => {
                    let p = gen::g_ep(&mut rng);
                    history(which, &p, &mut rng, 3, &mg, &mut st, "ep_study");
                }
                68..=82 => {
                    let p = gen::g_castle(&mut rng);
                    history(which, &p, &mut rng, 4, &mg, &mut st, "castle_study");
                }
                83..=92 => {
                    let p = gen::g_promo(&mut rng);
                    history(which, &p, &mut rng, 4, &mg, &mut st, "promo_study");
                }
                _ => {
                    let p = gen::g_explode(&mut rng);
                    history(which, &p, &mut rng, 8, &mg, &mut st, "promotion_race");
                }
            }
        }
        if which == Which::C17 {
            // second half: event log of real searches
            let mut done = 0;
            let mut i = w;
            while done < qsearches && (done < 2 || !ctx.out_of_time()) {
                let p = if i < gen::CORPUS.len() {
                    gen::corpus_pos(i)
                } else {
                    match rng.below(5) {
                        0 => gen::g_ep(&mut rng),
                        1 => gen::g_promo(&mut rng),
                        2 => gen::synth(&mut rng),
                        _ => gen::g_game_pos(&mut rng),
                    }
                };
                i += ctx.workers;
                if p.legal_moves().is_empty() {
                    continue;
                }
                let d = 1 + rng.below(2) as u8;
                if done % 4 == 0 {
                    // positions in which a quiet move or a castle is likely the best move (castle-ready kings,
                    // early middlegames): searched to depth 2..3, then quiescence directly on what was searched
                    let q = match rng.below(3) {
                        0 => gen::g_castle(&mut rng),
                        1 => {
                            let n = rng.range(6, 20) as usize;
                            let (ps, _) = gen::playout(&Pos::start(), &mut rng, n);
                            ps.last().unwrap().clone()
                        }
                        _ => p.clone(),
                    };
                    if !q.legal_moves().is_empty() {
                        if q.legal_moves().iter().any(|m| matches!(m.kind, oracle::MvKind::CastleK | oracle::MvKind::CastleQ)) {
                            st.bump("direct_quiescence_cases_with_castling_available_at_the_root");
                        }
                        c17_quiesce_after_search(&q, 2 + rng.below(2) as u8, &mut st, "quiescence_after_search");
                        st.bump("direct_quiescence_cases");
                        done += 1;
                        continue;
                    }
                }
                if done % 4 == 2 {
                    // a game given with the position command, in which positions near the current one
                    // are on record two or three times: the search runs with that history
                    let g = if done % 8 == 2 {
                        match crate::props::position::perpetual_game(&mut rng) {
                            Some(g) => {
                                st.bump("searches_logged_after_an_offset_perpetual_check_history");
                                g
                            }
                            None => crate::props::position::repeat_game(&mut rng),
                        }
                    } else {
                        crate::props::position::repeat_game(&mut rng)
                    };
                    if !g.current().legal_moves().is_empty() {
                        let cmd = g.command(None);
                        c17_search_log_after(&[], Some(&cmd), g.current(), 1 + rng.below(3) as u8, &mut st, "search_log_with_game_history", false);
                        st.bump("searches_logged_with_a_repeating_game_history_on_record");
                        done += 1;
                        continue;
                    }
                }
                if done % 2 == 1 {
                    // game continuation: search the position two plies earlier (deeper) first, on the
                    // same engine, then log the search of this position
                    let (ps, _) = gen::playout(&p, &mut rng, 2);
                    let later = ps.last().unwrap().clone();
                    if !later.legal_moves().is_empty() {
                        let mut earlier = vec![(p.clone(), 3u8)];
                        if ps.len() > 2 && rng.chance(1, 2) {
                            earlier.push((ps[1].clone(), 2u8));
                        }
                        c17_search_log_after(&earlier, None, &later, d, &mut st, "search_log_continued_game", false);
                        st.bump("searches_logged_on_an_engine_that_searched_the_game_before");
                        done += 1;
                        continue;
                    }
                }
                c17_search_log(&p, d, &mut st, "search_log");
                done += 1;
            }
        }
        st
    });
    finalize(ctx, spec(which, false), total)
}

fn spec(which: Which, replay: bool) -> Spec<'static> {
    let assumptions = vec![
        "the reference rules implementation (harness/src/oracle.rs) is correct; it is re-validated at every run by perft against published node counts on six standard positions".to_string(),
        "positions not generated in this run are not covered".to_string(),
    ];
    match which {
        Which::C01 => Spec {
            level: "exploration",
            rule: "cases are positions (corpus, random games from the start and from corpus positions played on one in-place engine board, synthetic valid positions, en-passant / castling / promotion / promotion-race studies, and the slider-table sweep: for every square, rook and bishop geometry and every occupancy of the relevant ray squares valid positions with a slider on that square and exactly those ray squares occupied — one exposing arrangement (the mover's own rook or bishop, every blocker an enemy piece, mover not in check and slider not pinned, so that every square of the table entry, right or wrong, is a move or a capture) and one or more random ones (rook, bishop or queen of either side, blockers of both colours, kings among them)); a case is distinct by (placement, side, rights, ep) and non-trivial when legality filtering or a special move matters in it: check, double check, refused pinned move, legal or refused ep, castling legal or refused, promotion, mate or stalemate. Sibling pass (every 16th position, and positions with promotion alternatives): on the same long-lived generator is_in_check(Si) is followed by the move list of the next sibling Sj for all successors of the position, each answer compared with the rules — the call order of a search, in which anything remembered from the previous call shows",
            assumptions,
            required: if replay { vec![] } else { vec!["ep_legal", "ep_refused_illegal", "castle_kingside_legal", "castle_queenside_legal", "castle_refused_attacked", "castle_queenside_with_b_file_attacked", "promotion", "promotion_capture", "double_check", "checkmate", "stalemate", "pinned_piece_move_refused", "sibling_call_pairs", "sibling_passes_with_promotion_alternatives", "slider_table_entries_visited"] },
            exhaustive: false,
            extra: vec![],
        },
        Which::C02 => Spec {
            level: "exploration",
            rule: "cases are positions in which EVERY legal move is applied with clone_with_move and the successor compared field by field with the rules' successor (moves_applied counts them); in addition every game is played on one engine board mutated in place and compared after each ply (inplace_plies_compared); distinct by position identity, non-trivial when the position has at least one legal move",
            assumptions,
            required: if replay { vec![] } else { vec!["moves_applied", "inplace_plies_compared", "ep_legal", "castle_kingside_legal", "castle_queenside_legal", "promotion_capture", "promotion_captures_rook_with_right"] },
            exhaustive: false,
            extra: vec![],
        },
        Which::C17 => Spec {
            level: "exploration",
            rule: "cases are (a) positions not in check on which generate_quiescence_moves is compared with {legal moves that capture, promote or give check} and (b) every quiescence node logged by real depth 1-2 searches (qnodes_logged) — on fresh engines and on engines that have just searched the position two plies earlier in the same game, and after position commands giving games that repeat positions (the search then runs with that history on record), so that the nodes now past the horizon have table entries — compared with that set or, when in check, with all legal moves; a second event log holds every (position, move) the quiescence search actually recursed into, each of which must belong to the expected set of its position; direct form: a position is searched to depth 2..3 and the engine's own quiescence search is then called, logged, on it and on up to 120 positions the main search expanded (all of which now have table entries naming quiet moves or castles as best); distinct by position identity, non-trivial when the expected set is non-empty / the position is not in check and has legal moves",
            assumptions,
            required: if replay { vec![] } else { vec!["q_ep_capture", "q_promotion", "q_quiet_check", "q_discovered_check", "qnodes_logged", "qnodes_in_check", "qnodes_not_in_check", "searches_logged_on_an_engine_that_searched_the_game_before", "quiescence_recursions_logged", "sibling_call_pairs", "searches_logged_with_a_repeating_game_history_on_record", "searches_logged_after_an_offset_perpetual_check_history", "direct_quiescence_cases", "direct_quiescence_cases_with_castling_available_at_the_root", "quiescence_called_directly_on_positions_the_main_search_had_expanded"] },
            exhaustive: false,
            extra: vec![],
        },
    }
}
