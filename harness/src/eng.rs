//! Bridges between the reference model (oracle::Pos) and the engine's types.
use crate::board::Board;
use crate::moves::Move;
use crate::oracle::{self, Pos};
use crate::pieces::{Color, Piece};

pub fn board_from_pos(p: &Pos) -> Board {
    Board::new(&p.to_fen())
}

pub fn piece_kind(p: Piece) -> u8 {
    match p {
        Piece::Pawn => oracle::P,
        Piece::Knight => oracle::N,
        Piece::Bishop => oracle::B,
        Piece::Rook => oracle::R,
        Piece::Queen => oracle::Q,
        Piece::King => oracle::K,
    }
}

pub const ALL_PIECES: [Piece; 6] = [Piece::Pawn, Piece::Knight, Piece::Bishop, Piece::Rook, Piece::Queen, Piece::King];

/// What the engine's board says, read back through its public accessors only.
pub struct Readback {
    pub sq: [u8; 64],
    pub stm: u8,
    pub castle: u8,
    pub ep: u8,
}

/// Read the board back; Err describes an internal inconsistency (overlapping piece sets, a square
/// with a piece but no colour, two colours, king count).
pub fn read_board(b: &Board) -> Result<Readback, String> {
    let mut sq = [0u8; 64];
    // raw set consistency first
    let w = b.bb_color(Color::White);
    let k = b.bb_color(Color::Black);
    if w & k != 0 {
        return Err(format!("colour sets overlap on {:#x}", w & k));
    }
    let mut union = 0u64;
    for (i, p) in ALL_PIECES.iter().enumerate() {
        let bb = b.bb_piece(*p);
        if union & bb != 0 {
            return Err(format!("piece sets overlap on {:#x} (kind index {})", union & bb, i));
        }
        union |= bb;
    }
    if union != (w | k) {
        return Err(format!("piece union {:#x} differs from colour union {:#x}", union, w | k));
    }
    for s in 0..64u8 {
        let piece = b.get_piece_at(s);
        let col = b.get_color_at(s);
        match (piece, col) {
            (None, None) => {}
            (Some(p), Some(c)) => {
                sq[s as usize] = oracle::pc(if c == Color::White { oracle::WHITE } else { oracle::BLACK }, piece_kind(p));
            }
            _ => return Err(format!("square {} has piece {:?} but colour {:?}", oracle::sq_name(s), piece, col)),
        }
    }
    for c in [Color::White, Color::Black] {
        let n = b.bb(c, Piece::King).count_ones();
        if n != 1 {
            return Err(format!("{} has {} kings", c, n));
        }
    }
    let (wk, wq) = b.castling_ability(Color::White);
    let (bk, bq) = b.castling_ability(Color::Black);
    let castle = (wk as u8) * oracle::WK | (wq as u8) * oracle::WQ | (bk as u8) * oracle::BK | (bq as u8) * oracle::BQ;
    Ok(Readback {
        sq,
        stm: if b.active_color() == Color::White { oracle::WHITE } else { oracle::BLACK },
        castle,
        ep: b.en_passant_target.unwrap_or(oracle::NO_EP),
    })
}

/// Compare the engine's board with the position the rules prescribe. The ep target is compared
/// exactly when an ep capture is legally possible; otherwise "as the oracle writes it" and "none"
/// are both accepted (the two conventions in use); any other square is a mismatch.
pub fn compare_board(b: &Board, want: &Pos) -> Result<(), String> {
    let got = read_board(b)?;
    if got.sq != want.sq {
        for s in 0..64 {
            if got.sq[s] != want.sq[s] {
                return Err(format!(
                    "placement differs on {}: engine has code {}, rules say {}",
                    oracle::sq_name(s as u8),
                    got.sq[s],
                    want.sq[s]
                ));
            }
        }
    }
    if got.stm != want.stm {
        return Err("side to move differs".into());
    }
    if got.castle != want.castle {
        return Err(format!("castling rights differ: engine {:04b}, rules {:04b} (bits qkQK)", got.castle, want.castle));
    }
    if got.ep != want.ep {
        let lenient_ok = got.ep == oracle::NO_EP && !want.ep_capture_legal();
        if !lenient_ok {
            return Err(format!(
                "en-passant target differs: engine {}, rules {}",
                if got.ep == oracle::NO_EP { "-".to_string() } else { oracle::sq_name(got.ep) },
                if want.ep == oracle::NO_EP { "-".to_string() } else { oracle::sq_name(want.ep) }
            ));
        }
    }
    Ok(())
}

pub fn move_strings(ms: &[Move]) -> Vec<String> {
    let mut v: Vec<String> = ms.iter().map(|m| m.to_algebraic()).collect();
    v.sort();
    v
}
