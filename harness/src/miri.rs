//! Supplementary observer: small single-threaded workloads meant to run under Miri (the undefined-behaviour
//! interpreter): `cargo +nightly miri run -- miri <ID> <seed>`. The engine has no `unsafe` today, so these
//! runs hold trivially on the unchanged tree; what they add is an observer for the day a change introduces
//! it (unchecked indexing, raw pointers, uninitialised buffers) — Miri sees uninitialised reads, invalid
//! values, misalignment and out-of-bounds accesses inside an allocation's padding that AddressSanitizer does
//! not. Each workload also compares every answer with its reference model, exactly as the full monitor does,
//! so a run is "no undefined behaviour AND no wrong answer on these operations".
//! Output: one line `MIRI <ID> ops=<n> mismatches=<m>`; exit 0 when m == 0, 1 otherwise. Undefined behaviour
//! makes Miri itself abort the process with its own report.
use crate::board::Board;
use crate::gen;
use crate::oracle::Pos;
use crate::rng::Rng;

fn c15(rng: &mut Rng, ops: u64) -> (u64, u64) {
    use crate::transposition::{Bounds, TranspositionTable};
    use std::collections::HashMap;
    let mut tt = TranspositionTable::new();
    let mut model: HashMap<u64, (i32, u8, Bounds)> = HashMap::new();
    let base = rng.next();
    let mut keys = vec![0u64, 1, u64::MAX, base, base ^ 1, base ^ (1 << 63), base.rotate_left(32)];
    for lowbits in [16u32, 20, 24, 32] {
        let mask = (1u64 << lowbits) - 1;
        keys.push((rng.next() & !mask) | (base & mask));
    }
    let mut bad = 0;
    for _ in 0..ops {
        let k = *rng.pick(&keys);
        if rng.chance(1, 2) {
            let d = *rng.pick(&[0u8, 1, 2, 3, 7, 8, 254, 255]);
            let e = rng.range(-40000, 40000) as i32;
            let b = *rng.pick(&[Bounds::Exact, Bounds::Lower, Bounds::Upper]);
            // what the table holds for this key NOW decides (a bounded table may have dropped the entry:
            // "either nothing or the data most recently accepted" — re-observed before every store, exactly
            // as the full monitor does, so that a legitimately lossy table is not accused)
            match tt.retrieve(k) {
                None => {
                    model.remove(&k);
                }
                Some(h) => match model.get(&k) {
                    Some(m) if m.0 == h.eval && m.1 == h.depth && m.2 == h.bounds => {}
                    _ => bad += 1,
                },
            }
            tt.store(k, e, None, d, b);
            let accept = model.get(&k).map(|m| d >= m.1).unwrap_or(true);
            if accept {
                model.insert(k, (e, d, b));
            }
            // after the store the key holds either the accepted data or nothing
            if let Some(h) = tt.retrieve(k) {
                match model.get(&k) {
                    Some(m) if m.0 == h.eval && m.1 == h.depth && m.2 == h.bounds && h.hash_key == k => {}
                    _ => bad += 1,
                }
            } else {
                model.remove(&k);
            }
        } else if let Some(e) = tt.retrieve(k) {
            match model.get(&k) {
                Some(m) if m.0 == e.eval && m.1 == e.depth && m.2 == e.bounds && e.hash_key == k => {}
                _ => bad += 1,
            }
        }
    }
    (ops, bad)
}

fn positions(rng: &mut Rng, n: usize) -> Vec<Pos> {
    let mut v = vec![Pos::start()];
    while v.len() < n {
        let start = if rng.chance(1, 2) { Pos::start() } else { gen::corpus_pos(rng.below(gen::CORPUS.len() as u64) as usize) };
        let (ps, _) = gen::playout(&start, rng, 12);
        v.push(ps.last().unwrap().clone());
    }
    v
}

fn c11(rng: &mut Rng, n: usize) -> (u64, u64) {
    use crate::zobrist::ZobristTable;
    let mut bad = 0;
    let mut ops = 0;
    for _ in 0..2 {
        let z = ZobristTable::new();
        let mut seen: std::collections::HashMap<u64, crate::oracle::PosKey> = std::collections::HashMap::new();
        for p in positions(rng, n) {
            let a = z.hash(&Board::new(&p.to_fen()));
            let mut q = p.clone();
            q.half = 37;
            q.full = 311;
            let b = z.hash(&Board::new(&q.to_fen()));
            let mut f = p.clone();
            f.stm ^= 1;
            f.ep = crate::oracle::NO_EP;
            let c = z.hash(&Board::new(&f.to_fen()));
            ops += 3;
            if a != b || a == c {
                bad += 1;
            }
            // two DIFFERENT positions under one key set must not collide; "different" in the reading that
            // ignores an en-passant square nobody can capture on, so that either convention passes
            let id = p.key_fide();
            if let Some(prev) = seen.insert(a, id) {
                if prev != id {
                    bad += 1;
                }
            }
        }
    }
    (ops, bad)
}

fn c14(rng: &mut Rng, n: usize) -> (u64, u64) {
    use crate::eval::Evaluator;
    let mut ev = Evaluator::new();
    let mut bad = 0;
    let mut ops = 0;
    for p in positions(rng, n) {
        let a = ev.evaluate(&Board::new(&p.to_fen()));
        let m = gen::mirror(&p);
        let b = ev.evaluate(&Board::new(&m.to_fen()));
        let a2 = Evaluator::new().evaluate(&Board::new(&p.to_fen()));
        ops += 3;
        if a != b || a != a2 || a.abs() >= 30000 {
            bad += 1;
        }
    }
    (ops, bad)
}

fn c01(rng: &mut Rng, n: usize) -> (u64, u64) {
    use crate::move_gen::MoveGenerator;
    let mg = MoveGenerator::new();
    let mut bad = 0;
    let mut ops = 0;
    for p in positions(rng, n) {
        let b = Board::new(&p.to_fen());
        let mut e: Vec<String> = mg.generate_moves(&b).iter().map(|m| m.to_algebraic()).collect();
        let mut o: Vec<String> = p.legal_moves().iter().map(|m| m.uci()).collect();
        e.sort();
        o.sort();
        ops += 1;
        if e != o || mg.is_in_check(&b) != p.in_check() {
            bad += 1;
        }
    }
    (ops, bad)
}

pub fn run(id: &str, seed: u64, scale: u64) -> i32 {
    let mut rng = Rng::new(seed, 0x3141);
    let (ops, bad) = match id {
        "C15" => c15(&mut rng, 400 * scale),
        "C11" => c11(&mut rng, (6 * scale) as usize),
        "C14" => c14(&mut rng, (6 * scale) as usize),
        "C01" | "C10" => c01(&mut rng, (3 * scale) as usize),
        _ => {
            println!("MIRI {} not-applicable", id);
            return 2;
        }
    };
    println!("MIRI {} ops={} mismatches={}", id, ops, bad);
    if bad == 0 {
        0
    } else {
        1
    }
}
