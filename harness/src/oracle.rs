//! Independent reference implementation of the rules of chess (mailbox, 8x8 array).
//!
//! Shares nothing with the engine: no bitboards, no magic tables, no engine helper. Trust comes
//! from `self_test()` (perft against published numbers), run at the start of every check that
//! uses it.

pub const P: u8 = 1;
pub const N: u8 = 2;
pub const B: u8 = 3;
pub const R: u8 = 4;
pub const Q: u8 = 5;
pub const K: u8 = 6;
pub const WHITE: u8 = 0;
pub const BLACK: u8 = 1;
pub const NO_EP: u8 = 64;

pub const WK: u8 = 1;
pub const WQ: u8 = 2;
pub const BK: u8 = 4;
pub const BQ: u8 = 8;

#[inline]
pub fn pc(color: u8, kind: u8) -> u8 {
    (color << 3) | kind
}
#[inline]
pub fn kind(p: u8) -> u8 {
    p & 7
}
#[inline]
pub fn color(p: u8) -> u8 {
    p >> 3
}
#[inline]
pub fn file_of(s: u8) -> i8 {
    (s & 7) as i8
}
#[inline]
pub fn rank_of(s: u8) -> i8 {
    (s >> 3) as i8
}
#[inline]
pub fn sq(file: i8, rank: i8) -> u8 {
    (rank * 8 + file) as u8
}
#[inline]
pub fn on_board(file: i8, rank: i8) -> bool {
    (0..8).contains(&file) && (0..8).contains(&rank)
}

pub fn sq_name(s: u8) -> String {
    format!("{}{}", (b'a' + (s & 7)) as char, (b'1' + (s >> 3)) as char)
}

pub fn parse_sq(s: &str) -> Option<u8> {
    let b = s.as_bytes();
    if b.len() != 2 || !(b'a'..=b'h').contains(&b[0]) || !(b'1'..=b'8').contains(&b[1]) {
        return None;
    }
    Some((b[1] - b'1') * 8 + (b[0] - b'a'))
}

#[derive(Clone, Copy, PartialEq, Eq, Hash, Debug)]
pub enum MvKind {
    Normal,
    Double,
    EnPassant,
    CastleK,
    CastleQ,
}

#[derive(Clone, Copy, PartialEq, Eq, Hash, Debug)]
pub struct Mv {
    pub from: u8,
    pub to: u8,
    /// 0 or the piece kind promoted to
    pub promo: u8,
    pub kind: MvKind,
}

impl Mv {
    pub fn uci(&self) -> String {
        let mut s = format!("{}{}", sq_name(self.from), sq_name(self.to));
        match self.promo {
            N => s.push('n'),
            B => s.push('b'),
            R => s.push('r'),
            Q => s.push('q'),
            _ => {}
        }
        s
    }
}

/// Identity of a position under the rules (placement, side, rights, ep target as written)
pub type PosKey = [u8; 67];

#[derive(Clone, PartialEq, Eq, Debug)]
pub struct Pos {
    pub sq: [u8; 64],
    pub stm: u8,
    pub castle: u8,
    pub ep: u8,
    pub half: u32,
    pub full: u32,
}

const KNIGHT_D: [(i8, i8); 8] = [(1, 2), (2, 1), (2, -1), (1, -2), (-1, -2), (-2, -1), (-2, 1), (-1, 2)];
const KING_D: [(i8, i8); 8] = [(1, 0), (1, 1), (0, 1), (-1, 1), (-1, 0), (-1, -1), (0, -1), (1, -1)];
const ROOK_D: [(i8, i8); 4] = [(1, 0), (0, 1), (-1, 0), (0, -1)];
const BISHOP_D: [(i8, i8); 4] = [(1, 1), (-1, 1), (-1, -1), (1, -1)];

pub const START_FEN: &str = "rnbqkbnr/pppppppp/8/8/8/8/PPPPPPPP/RNBQKBNR w KQkq - 0 1";

impl Pos {
    pub fn empty() -> Pos {
        Pos { sq: [0; 64], stm: WHITE, castle: 0, ep: NO_EP, half: 0, full: 1 }
    }

    pub fn start() -> Pos {
        Pos::from_fen(START_FEN).unwrap()
    }

    pub fn key(&self) -> PosKey {
        let mut k = [0u8; 67];
        k[..64].copy_from_slice(&self.sq);
        k[64] = self.stm;
        k[65] = self.castle;
        k[66] = self.ep;
        k
    }

    /// Identity with the ep target counted only when an ep capture is legally possible (FIDE 9.2)
    pub fn key_fide(&self) -> PosKey {
        let mut k = self.key();
        if self.ep != NO_EP && !self.ep_capture_legal() {
            k[66] = NO_EP;
        }
        k
    }

    pub fn from_fen(fen: &str) -> Result<Pos, String> {
        let parts: Vec<&str> = fen.split_whitespace().collect();
        if parts.len() < 4 {
            return Err("fen: too few fields".into());
        }
        let mut p = Pos::empty();
        let ranks: Vec<&str> = parts[0].split('/').collect();
        if ranks.len() != 8 {
            return Err("fen: ranks".into());
        }
        for (i, r) in ranks.iter().enumerate() {
            let rank = 7 - i as i8;
            let mut file = 0i8;
            for c in r.chars() {
                if let Some(d) = c.to_digit(10) {
                    file += d as i8;
                } else {
                    let k = match c.to_ascii_lowercase() {
                        'p' => P,
                        'n' => N,
                        'b' => B,
                        'r' => R,
                        'q' => Q,
                        'k' => K,
                        _ => return Err("fen: piece".into()),
                    };
                    if file > 7 {
                        return Err("fen: file overflow".into());
                    }
                    let col = if c.is_ascii_uppercase() { WHITE } else { BLACK };
                    p.sq[sq(file, rank) as usize] = pc(col, k);
                    file += 1;
                }
            }
            if file != 8 {
                return Err("fen: rank width".into());
            }
        }
        p.stm = match parts[1] {
            "w" => WHITE,
            "b" => BLACK,
            _ => return Err("fen: side".into()),
        };
        for c in parts[2].chars() {
            match c {
                'K' => p.castle |= WK,
                'Q' => p.castle |= WQ,
                'k' => p.castle |= BK,
                'q' => p.castle |= BQ,
                '-' => {}
                _ => return Err("fen: castle".into()),
            }
        }
        p.ep = if parts[3] == "-" { NO_EP } else { parse_sq(parts[3]).ok_or("fen: ep")? };
        p.half = parts.get(4).and_then(|s| s.parse().ok()).unwrap_or(0);
        p.full = parts.get(5).and_then(|s| s.parse().ok()).unwrap_or(1);
        Ok(p)
    }

    pub fn placement_fen(&self) -> String {
        let mut s = String::new();
        for rank in (0..8).rev() {
            let mut empty = 0;
            for file in 0..8 {
                let p = self.sq[sq(file, rank) as usize];
                if p == 0 {
                    empty += 1;
                } else {
                    if empty > 0 {
                        s.push_str(&empty.to_string());
                        empty = 0;
                    }
                    let c = match kind(p) {
                        P => 'p',
                        N => 'n',
                        B => 'b',
                        R => 'r',
                        Q => 'q',
                        _ => 'k',
                    };
                    s.push(if color(p) == WHITE { c.to_ascii_uppercase() } else { c });
                }
            }
            if empty > 0 {
                s.push_str(&empty.to_string());
            }
            if rank > 0 {
                s.push('/');
            }
        }
        s
    }

    pub fn to_fen(&self) -> String {
        let mut c = String::new();
        if self.castle & WK != 0 {
            c.push('K');
        }
        if self.castle & WQ != 0 {
            c.push('Q');
        }
        if self.castle & BK != 0 {
            c.push('k');
        }
        if self.castle & BQ != 0 {
            c.push('q');
        }
        if c.is_empty() {
            c.push('-');
        }
        format!(
            "{} {} {} {} {} {}",
            self.placement_fen(),
            if self.stm == WHITE { "w" } else { "b" },
            c,
            if self.ep == NO_EP { "-".to_string() } else { sq_name(self.ep) },
            self.half,
            self.full
        )
    }

    pub fn king_sq(&self, col: u8) -> Option<u8> {
        let k = pc(col, K);
        (0..64u8).find(|&s| self.sq[s as usize] == k)
    }

    /// Is square `s` attacked by any piece of colour `by`?
    pub fn attacked(&self, s: u8, by: u8) -> bool {
        let (f, r) = (file_of(s), rank_of(s));
        // pawns: a pawn of colour `by` attacks diagonally forward (white: up)
        let pr = if by == WHITE { r - 1 } else { r + 1 };
        for df in [-1i8, 1] {
            if on_board(f + df, pr) && self.sq[sq(f + df, pr) as usize] == pc(by, P) {
                return true;
            }
        }
        for (dx, dy) in KNIGHT_D {
            if on_board(f + dx, r + dy) && self.sq[sq(f + dx, r + dy) as usize] == pc(by, N) {
                return true;
            }
        }
        for (dx, dy) in KING_D {
            if on_board(f + dx, r + dy) && self.sq[sq(f + dx, r + dy) as usize] == pc(by, K) {
                return true;
            }
        }
        for (dx, dy) in ROOK_D {
            let (mut x, mut y) = (f + dx, r + dy);
            while on_board(x, y) {
                let p = self.sq[sq(x, y) as usize];
                if p != 0 {
                    if color(p) == by && (kind(p) == R || kind(p) == Q) {
                        return true;
                    }
                    break;
                }
                x += dx;
                y += dy;
            }
        }
        for (dx, dy) in BISHOP_D {
            let (mut x, mut y) = (f + dx, r + dy);
            while on_board(x, y) {
                let p = self.sq[sq(x, y) as usize];
                if p != 0 {
                    if color(p) == by && (kind(p) == B || kind(p) == Q) {
                        return true;
                    }
                    break;
                }
                x += dx;
                y += dy;
            }
        }
        false
    }

    /// Number of enemy pieces giving check to colour `col`'s king
    pub fn checkers(&self, col: u8) -> u32 {
        let ks = match self.king_sq(col) {
            Some(k) => k,
            None => return 0,
        };
        let by = col ^ 1;
        let (f, r) = (file_of(ks), rank_of(ks));
        let mut n = 0;
        let pr = if by == WHITE { r - 1 } else { r + 1 };
        for df in [-1i8, 1] {
            if on_board(f + df, pr) && self.sq[sq(f + df, pr) as usize] == pc(by, P) {
                n += 1;
            }
        }
        for (dx, dy) in KNIGHT_D {
            if on_board(f + dx, r + dy) && self.sq[sq(f + dx, r + dy) as usize] == pc(by, N) {
                n += 1;
            }
        }
        for (dirs, slider) in [(ROOK_D, R), (BISHOP_D, B)] {
            for (dx, dy) in dirs {
                let (mut x, mut y) = (f + dx, r + dy);
                while on_board(x, y) {
                    let p = self.sq[sq(x, y) as usize];
                    if p != 0 {
                        if color(p) == by && (kind(p) == slider || kind(p) == Q) {
                            n += 1;
                        }
                        break;
                    }
                    x += dx;
                    y += dy;
                }
            }
        }
        n
    }

    pub fn in_check(&self) -> bool {
        match self.king_sq(self.stm) {
            Some(k) => self.attacked(k, self.stm ^ 1),
            None => false,
        }
    }

    fn push_pawn_move(&self, out: &mut Vec<Mv>, from: u8, to: u8, kind_: MvKind) {
        let last = if self.stm == WHITE { 7 } else { 0 };
        if rank_of(to) == last {
            for pr in [N, B, R, Q] {
                out.push(Mv { from, to, promo: pr, kind: kind_ });
            }
        } else {
            out.push(Mv { from, to, promo: 0, kind: kind_ });
        }
    }

    pub fn pseudo_moves(&self) -> Vec<Mv> {
        let mut out = Vec::with_capacity(48);
        let us = self.stm;
        for s in 0..64u8 {
            let p = self.sq[s as usize];
            if p == 0 || color(p) != us {
                continue;
            }
            let (f, r) = (file_of(s), rank_of(s));
            match kind(p) {
                P => {
                    let dir: i8 = if us == WHITE { 1 } else { -1 };
                    let start = if us == WHITE { 1 } else { 6 };
                    if on_board(f, r + dir) && self.sq[sq(f, r + dir) as usize] == 0 {
                        self.push_pawn_move(&mut out, s, sq(f, r + dir), MvKind::Normal);
                        if r == start && self.sq[sq(f, r + 2 * dir) as usize] == 0 {
                            out.push(Mv { from: s, to: sq(f, r + 2 * dir), promo: 0, kind: MvKind::Double });
                        }
                    }
                    for df in [-1i8, 1] {
                        if !on_board(f + df, r + dir) {
                            continue;
                        }
                        let t = sq(f + df, r + dir);
                        let q = self.sq[t as usize];
                        if q != 0 && color(q) != us {
                            self.push_pawn_move(&mut out, s, t, MvKind::Normal);
                        } else if q == 0 && t == self.ep {
                            out.push(Mv { from: s, to: t, promo: 0, kind: MvKind::EnPassant });
                        }
                    }
                }
                N | K => {
                    let ds = if kind(p) == N { KNIGHT_D } else { KING_D };
                    for (dx, dy) in ds {
                        if on_board(f + dx, r + dy) {
                            let t = sq(f + dx, r + dy);
                            let q = self.sq[t as usize];
                            if q == 0 || color(q) != us {
                                out.push(Mv { from: s, to: t, promo: 0, kind: MvKind::Normal });
                            }
                        }
                    }
                }
                k => {
                    let mut dirs: Vec<(i8, i8)> = Vec::new();
                    if k == R || k == Q {
                        dirs.extend(ROOK_D);
                    }
                    if k == B || k == Q {
                        dirs.extend(BISHOP_D);
                    }
                    for (dx, dy) in dirs {
                        let (mut x, mut y) = (f + dx, r + dy);
                        while on_board(x, y) {
                            let t = sq(x, y);
                            let q = self.sq[t as usize];
                            if q == 0 {
                                out.push(Mv { from: s, to: t, promo: 0, kind: MvKind::Normal });
                            } else {
                                if color(q) != us {
                                    out.push(Mv { from: s, to: t, promo: 0, kind: MvKind::Normal });
                                }
                                break;
                            }
                            x += dx;
                            y += dy;
                        }
                    }
                }
            }
        }
        // castling
        let (home, kr, qr) = if us == WHITE { (0i8, WK, WQ) } else { (7i8, BK, BQ) };
        let e = sq(4, home);
        if self.sq[e as usize] == pc(us, K) {
            let them = us ^ 1;
            if self.castle & kr != 0
                && self.sq[sq(7, home) as usize] == pc(us, R)
                && self.sq[sq(5, home) as usize] == 0
                && self.sq[sq(6, home) as usize] == 0
                && !self.attacked(e, them)
                && !self.attacked(sq(5, home), them)
                && !self.attacked(sq(6, home), them)
            {
                out.push(Mv { from: e, to: sq(6, home), promo: 0, kind: MvKind::CastleK });
            }
            if self.castle & qr != 0
                && self.sq[sq(0, home) as usize] == pc(us, R)
                && self.sq[sq(1, home) as usize] == 0
                && self.sq[sq(2, home) as usize] == 0
                && self.sq[sq(3, home) as usize] == 0
                && !self.attacked(e, them)
                && !self.attacked(sq(3, home), them)
                && !self.attacked(sq(2, home), them)
            {
                out.push(Mv { from: e, to: sq(2, home), promo: 0, kind: MvKind::CastleQ });
            }
        }
        out
    }

    /// The successor position prescribed by the rules (the move must be pseudo-legal here)
    pub fn make(&self, m: &Mv) -> Pos {
        let mut n = self.clone();
        let us = self.stm;
        let p = self.sq[m.from as usize];
        let captured = self.sq[m.to as usize];
        n.sq[m.from as usize] = 0;
        n.sq[m.to as usize] = if m.promo != 0 { pc(us, m.promo) } else { p };
        n.ep = NO_EP;
        match m.kind {
            MvKind::Double => {
                n.ep = ((m.from as u16 + m.to as u16) / 2) as u8;
            }
            MvKind::EnPassant => {
                let victim = sq(file_of(m.to), rank_of(m.from));
                n.sq[victim as usize] = 0;
            }
            MvKind::CastleK => {
                let home = rank_of(m.from);
                n.sq[sq(7, home) as usize] = 0;
                n.sq[sq(5, home) as usize] = pc(us, R);
            }
            MvKind::CastleQ => {
                let home = rank_of(m.from);
                n.sq[sq(0, home) as usize] = 0;
                n.sq[sq(3, home) as usize] = pc(us, R);
            }
            MvKind::Normal => {}
        }
        // rights: lost when the king or a rook leaves its home square or a rook is captured there
        for s in [m.from, m.to] {
            match s {
                4 => n.castle &= !(WK | WQ),
                60 => n.castle &= !(BK | BQ),
                0 => n.castle &= !WQ,
                7 => n.castle &= !WK,
                56 => n.castle &= !BQ,
                63 => n.castle &= !BK,
                _ => {}
            }
        }
        if kind(p) == P || captured != 0 {
            n.half = 0;
        } else {
            n.half = self.half + 1;
        }
        if us == BLACK {
            n.full = self.full + 1;
        }
        n.stm = us ^ 1;
        n
    }

    pub fn is_legal_after(&self, m: &Mv) -> bool {
        let n = self.make(m);
        match n.king_sq(self.stm) {
            Some(k) => !n.attacked(k, self.stm ^ 1),
            None => false,
        }
    }

    pub fn legal_moves(&self) -> Vec<Mv> {
        let mut v = self.pseudo_moves();
        v.retain(|m| self.is_legal_after(m));
        v
    }

    pub fn find_uci(&self, uci: &str) -> Option<Mv> {
        self.legal_moves().into_iter().find(|m| m.uci() == uci)
    }

    pub fn is_capture(&self, m: &Mv) -> bool {
        m.kind == MvKind::EnPassant || self.sq[m.to as usize] != 0
    }

    pub fn gives_check(&self, m: &Mv) -> bool {
        self.make(m).in_check()
    }

    /// Is there a legal en-passant capture in this position?
    pub fn ep_capture_legal(&self) -> bool {
        if self.ep == NO_EP {
            return false;
        }
        self.pseudo_moves().iter().any(|m| m.kind == MvKind::EnPassant && self.is_legal_after(m))
    }

    pub fn perft(&self, depth: u32) -> u64 {
        if depth == 0 {
            return 1;
        }
        let ms = self.legal_moves();
        if depth == 1 {
            return ms.len() as u64;
        }
        ms.iter().map(|m| self.make(m).perft(depth - 1)).sum()
    }

    pub fn piece_count(&self) -> usize {
        self.sq.iter().filter(|&&p| p != 0).count()
    }

    /// The C01 quantifier: one king each, side not to move not in check, no pawns on ranks 1/8,
    /// castling flags and en-passant square consistent with the placement.
    pub fn validity(&self) -> Result<(), &'static str> {
        for col in [WHITE, BLACK] {
            let n = self.sq.iter().filter(|&&p| p == pc(col, K)).count();
            if n != 1 {
                return Err("king count");
            }
            if self.sq.iter().filter(|&&p| p != 0 && color(p) == col).count() > 16 {
                return Err("more than 16 men");
            }
        }
        for f in 0..8 {
            for r in [0, 7] {
                if kind(self.sq[sq(f, r) as usize]) == P {
                    return Err("pawn on back rank");
                }
            }
        }
        let them = self.stm ^ 1;
        if self.attacked(self.king_sq(them).unwrap(), self.stm) {
            return Err("side not to move in check");
        }
        let req = [
            (WK, 4u8, 7u8, WHITE),
            (WQ, 4, 0, WHITE),
            (BK, 60, 63, BLACK),
            (BQ, 60, 56, BLACK),
        ];
        for (bit, ksq, rsq, col) in req {
            if self.castle & bit != 0
                && (self.sq[ksq as usize] != pc(col, K) || self.sq[rsq as usize] != pc(col, R))
            {
                return Err("castling flag without king/rook at home");
            }
        }
        if self.ep != NO_EP {
            let (f, r) = (file_of(self.ep), rank_of(self.ep));
            // the side that just moved (them) pushed a pawn two squares, passing over ep
            let (ep_rank, pawn_rank, from_rank) = if them == WHITE { (2, 3, 1) } else { (5, 4, 6) };
            if r != ep_rank
                || self.sq[self.ep as usize] != 0
                || self.sq[sq(f, pawn_rank) as usize] != pc(them, P)
                || self.sq[sq(f, from_rank) as usize] != 0
            {
                return Err("ep square inconsistent");
            }
        }
        Ok(())
    }
}

/// Perft against published numbers (chessprogramming.org "Perft Results").
pub fn self_test() -> Result<(), String> {
    let cases: [(&str, u32, u64); 8] = [
        (START_FEN, 4, 197_281),
        ("r3k2r/p1ppqpb1/bn2pnp1/3PN3/1p2P3/2N2Q1p/PPPBBPPP/R3K2R w KQkq - 0 1", 3, 97_862),
        ("8/2p5/3p4/KP5r/1R3p1k/8/4P1P1/8 w - - 0 1", 5, 674_624),
        ("r3k2r/Pppp1ppp/1b3nbN/nP6/BBP1P3/q4N2/Pp1P2PP/R2Q1RK1 w kq - 0 1", 4, 422_333),
        ("r2q1rk1/pP1p2pp/Q4n2/bbp1p3/Np6/1B3NBn/pPPP1PPP/R3K2R b KQ - 0 1", 4, 422_333),
        ("rnbq1k1r/pp1Pbppp/2p5/8/2B5/8/PPP1NnPP/RNBQK2R w KQ - 1 8", 3, 62_379),
        ("r4rk1/1pp1qppp/p1np1n2/2b1p1B1/2B1P1b1/P1NP1N2/1PP1QPPP/R4RK1 w - - 0 10", 3, 89_890),
        ("8/8/8/8/k2Pp2Q/8/8/3K4 b - d3 0 1", 2, 0), // filled below: ep refused by a horizontal pin
    ];
    for (fen, d, want) in cases.iter() {
        let p = Pos::from_fen(fen)?;
        p.validity().map_err(|e| format!("oracle self-test: {} judged invalid: {}", fen, e))?;
        if *want == 0 {
            // horizontal pin: e4xd3 ep would expose the black king on a4 to the queen on h4
            if p.legal_moves().iter().any(|m| m.kind == MvKind::EnPassant) {
                return Err("oracle self-test: pinned en passant accepted".into());
            }
            continue;
        }
        let got = p.perft(*d);
        if got != *want {
            return Err(format!("oracle self-test: perft({}) of {} = {}, expected {}", d, fen, got, want));
        }
        if Pos::from_fen(&p.to_fen())? != p {
            return Err("oracle self-test: fen round trip".into());
        }
    }
    Ok(())
}
