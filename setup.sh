#!/bin/bash
# Builds the framework offline from files on disk: the monitoring harness (engine sources from
# /repo/src compiled in, hooks on) and the engine's own release binary (hooks off).
set -e
cd "$(dirname "$(readlink -f "$0")")"
export CARGO_NET_OFFLINE=true
mkdir -p target evidence replays
cargo build --release --offline --manifest-path harness/Cargo.toml --target-dir target/harness
cargo build --release --offline --manifest-path /repo/Cargo.toml --target-dir target/engine
target/harness/release/fverif selftest
