#!/bin/bash
# Builds the framework offline from files on disk: the monitoring harness (engine sources from
# /repo/src compiled in, hooks on) and the engine's own release binary (hooks off).
set -e
cd "$(dirname "$(readlink -f "$0")")"
export CARGO_NET_OFFLINE=true
mkdir -p target evidence replays
cargo build --release --offline --manifest-path harness/Cargo.toml --target-dir target/harness
cargo build --release --offline --manifest-path /repo/Cargo.toml --target-dir target/engine
target/harness/release/fverif selftest
# AddressSanitizer build of the same harness (sanitizer pass of the in-process checks); optional: when the
# nightly toolchain cannot build it the checks say so in their evidence and decide without it
CARGO_PROFILE_RELEASE_DEBUG=line-tables-only CARGO_PROFILE_RELEASE_STRIP=none RUSTFLAGS="-Zsanitizer=address -Cforce-frame-pointers=yes -Cdebug-assertions=off" \
  cargo +nightly build --release --offline --manifest-path harness/Cargo.toml --target x86_64-unknown-linux-gnu --target-dir target/asan \
  || echo "setup: sanitizer build unavailable"
