#!/bin/bash
# tools/check_patches.sh [dirs...] — which seeded/mutant patches still apply to /repo's current sources
# (OK = as is, OK-RB = through patch.rebased.diff, FUZZ = with fuzzy context, FAIL = needs rebasing)
cd "$(dirname "$(readlink -f "$0")")/.."
for f in "${@:-seeded/*/patch.diff mutants/*.diff}"; do for p in $f; do
  S=$(mktemp -d /tmp/ap.XXXXXX); mkdir -p $S/r; cp -r /repo/src /repo/Cargo.toml $S/r/; P=$(readlink -f $p); RB="$(dirname $P)/$(basename $P .diff).rebased.diff"
  ( cd $S/r && git init -q . && if git apply $P 2>/dev/null; then echo "OK    $p"; elif [ -f $RB ] && git apply $RB 2>/dev/null; then echo "OK-RB $p"; elif patch -s -f -p1 -F3 --no-backup-if-mismatch < $P >/dev/null 2>&1; then echo "FUZZ  $p"; else echo "FAIL  $p"; fi )
  rm -rf $S
done; done
