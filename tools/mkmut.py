#!/usr/bin/env python3
"""tools/mkmut.py <name> <file> <old> <new> [<file> <old> <new> ...] — write mutants/<name>.diff:
a unified diff against /repo's current working tree replacing exactly one occurrence of <old> by
<new> (several replacements in one file are combined; paths relative to /repo)."""
import sys, difflib, warnings
warnings.simplefilter('ignore')
name = sys.argv[1]; args = sys.argv[2:]
files = {}
for i in range(0, len(args), 3):
    f, old, new = args[i:i+3]
    if f not in files:
        files[f] = [open('/repo/' + f).read()] * 2
    old = old.encode().decode('unicode_escape'); new = new.encode().decode('unicode_escape')
    t = files[f][1]
    assert t.count(old) == 1, (f, old, t.count(old))
    files[f][1] = t.replace(old, new)
out = []
for f, (s, t) in files.items():
    out += list(difflib.unified_diff(s.splitlines(True), t.splitlines(True), 'a/' + f, 'b/' + f))
open('/verif/mutants/%s.diff' % name, 'w').write(''.join(out))
print('wrote mutants/%s.diff' % name)
