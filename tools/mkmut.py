#!/usr/bin/env python3
"""tools/mkmut.py <name> <file> <old> <new> [<file> <old> <new> ...] — write mutants/<name>.diff:
a unified diff against /repo's current working tree replacing exactly one occurrence of <old> by
<new> in each named file (paths relative to /repo)."""
import sys, difflib
name = sys.argv[1]; args = sys.argv[2:]
out = []
for i in range(0, len(args), 3):
    f, old, new = args[i:i+3]
    s = open('/repo/' + f).read()
    old = old.encode().decode('unicode_escape'); new = new.encode().decode('unicode_escape')
    assert s.count(old) == 1, (f, old, s.count(old))
    t = s.replace(old, new)
    out += list(difflib.unified_diff(s.splitlines(True), t.splitlines(True), 'a/' + f, 'b/' + f))
open('/verif/mutants/%s.diff' % name, 'w').write(''.join(out))
print('wrote mutants/%s.diff' % name)
