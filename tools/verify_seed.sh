#!/bin/bash
# tools/verify_seed.sh <ID-dir under /tmp/seed> <demo-kind: test:<name> | sh>  — confirm a seeded change:
# builds, full test suite passes with it, demonstration fails with it and passes without it.
set -u
W=/tmp/seed/$1; O=/tmp/seed/$1.out${SUB:+/$SUB}; KIND=$2
export CARGO_NET_OFFLINE=true
cd "$W" || exit 3
git checkout -q -- . && git clean -fdq -e target
git apply "$O/patch.diff" || { echo "patch does not apply"; exit 3; }
echo "== full suite with change"
echo "SUITE: $(cargo test --offline --release -- --test-threads 8 2>&1 | grep -E "^test result|FAILED" | head -3 | tr "\n" " ")"
cargo build --release --offline 2>&1 | tail -1
run_demo() {
  case "$KIND" in
    test:*) [ -f "$O/demo_test.diff" ] && git apply "$O/demo_test.diff"; cargo test --offline --release "${KIND#test:}" 2>&1 | grep -E "^test result|panicked|left:|right:" | head -6; [ -f "$O/demo_test.diff" ] && git apply -R "$O/demo_test.diff";;
    sh) bash "$O/demo.sh" > "$O/demo.out" 2>&1; rc=$?; tail -4 "$O/demo.out"; echo "demo.sh exit=$rc";;
  esac
}
echo "== demo WITH change (expect failure)"; run_demo
git apply -R "$O/patch.diff"
cargo build --release --offline 2>&1 | tail -1
echo "== demo WITHOUT change (expect pass)"; run_demo
git apply "$O/patch.diff"
[ -n "${SUB:-}" ] && git apply -R "$O/patch.diff"
