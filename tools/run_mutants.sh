#!/bin/bash
# tools/run_mutants.sh [glob]  — run every mutants/<prefix>_*.diff against the check named by its prefix
cd "$(dirname "$(readlink -f "$0")")/.."
pat="${1:-*}"
for f in mutants/$pat.diff; do
  id=$(basename "$f" | cut -d_ -f1 | tr a-z A-Z)
  case "$id" in
    OK) continue;;                                             # negative controls: tools/run_controls.sh
    SAN) id=$(basename "$f" | cut -d_ -f2 | tr a-z A-Z);;      # san_cNN_*: caught by the sanitizer pass / process supervision of check CNN
  esac
  MUT_LINES=1 tools/mutant.sh "$f" "$id" "${2:-quick}" | cut -c1-230
done
rm -rf /tmp/fmut_target
