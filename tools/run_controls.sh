#!/bin/bash
# tools/run_controls.sh [name-glob] — run the negative controls (mutants/ok_*.diff): expected exit 0 everywhere
cd "$(dirname "$(readlink -f "$0")")/.."
pat="${1:-ok_*}"
grep -v '^#' mutants/OK_CONTROLS.txt | while IFS=: read name ids; do
  case "$name" in $pat) ;; *) continue;; esac
  for id in $ids; do
    MUT_TARGET=/tmp/fctl_target MUT_LINES=2 tools/mutant.sh mutants/$name.diff $id "${2:-quick}" | cut -c1-260
  done
done
rm -rf /tmp/fctl_target
