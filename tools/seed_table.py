#!/usr/bin/env python3
"""Rewrites the seeded-change table in DESIGN.md from seeded/*/meta.json."""
import json, os, re
V = os.path.dirname(os.path.dirname(os.path.abspath(__file__)))
rows = ["| seeded change | round | breaks | needs to manifest | caught by (quick tier) | note |", "|---|---|---|---|---|---|"]
for d in sorted(os.listdir(os.path.join(V, 'seeded'))):
    mp = os.path.join(V, 'seeded', d, 'meta.json')
    if not os.path.exists(mp):
        continue
    m = json.load(open(mp))
    esc = lambda t: t.replace('|', '\\|').replace('\n', ' ')
    rows.append("| %s | %s | %s | %s | %s | %s |" % (d, m.get('round', 1), m['breaks_property'], esc(m['needs_to_manifest']), ', '.join(m['caught_by']) or '**none**', esc(m.get('notes', ''))))
p = os.path.join(V, 'DESIGN.md'); s = open(p).read()
s = re.sub(r'<!-- SEED-TABLE-BEGIN -->.*<!-- SEED-TABLE-END -->', '<!-- SEED-TABLE-BEGIN -->\n' + '\n'.join(rows) + '\n<!-- SEED-TABLE-END -->', s, flags=re.S)
open(p, 'w').write(s)
print(len(rows) - 2, 'seeded changes listed')
