#!/bin/bash
# tools/run_seeded.sh [name-glob] [tier] — run every kept seeded change against the checks recorded as catching it
# (scratch copy of /repo with the patch applied; /repo itself is not touched). Expected: exit=1 on each line.
cd "$(dirname "$(readlink -f "$0")")/.."
pat="${1:-*}"
for d in seeded/$pat/; do
  name=$(basename "$d")
  ids=$(python3 -c "import json,sys; print(' '.join(json.load(open('$d/meta.json'))['caught_by']))")
  for id in $ids; do
    echo -n "$name: "
    MUT_TARGET=/tmp/fseeded_target MUT_LINES=0 tools/mutant.sh "$d/patch.diff" "$id" "${2:-quick}" | tail -1
  done
done
rm -rf /tmp/fseeded_target
