#!/bin/bash
# tools/mutant.sh <patch-file> <ID> [tier]  — monitor self-validation.
# Copies /repo (src + manifests) to a scratch directory outside /repo and /verif, applies the change
# there, runs the owning check against the scratch copy (FLOUNDER_SRC, separate target dir, separate
# evidence/replay dir) and removes the copy. Expected for a property-breaking change: exit 1.
set -u
PATCH="$(readlink -f "$1")"; ID="$2"; TIER="${3:-quick}"
S=$(mktemp -d /tmp/fmut.XXXXXX)
trap 'rm -rf "$S"' EXIT
mkdir -p "$S/repo"
cp -r /repo/src /repo/Cargo.toml /repo/Cargo.lock "$S/repo/"
# a change written against an earlier /repo HEAD (before a later hook commit) may need its rebased
# version (patch.rebased.diff next to it) or fuzzy context matching
RB="$(dirname "$PATCH")/$(basename "$PATCH" .diff).rebased.diff"
( cd "$S/repo" && git init -q . && { git apply --whitespace=nowarn "$PATCH" 2>/dev/null || { [ -f "$RB" ] && git apply --whitespace=nowarn "$RB"; } || patch -s -f -p1 -F3 --no-backup-if-mismatch < "$PATCH"; } ) || { echo "patch does not apply"; exit 3; }
T="${MUT_TARGET:-/tmp/fmut_target}"
mkdir -p "$T"
FLOUNDER_SRC="$S/repo/src" VERIF_TARGET="$T" VERIF_OUT="$S" "$(dirname "$(readlink -f "$0")")/../check" "$ID" "$TIER" > "$S/out.txt" 2>&1
rc=$?
grep -E '^(VIOLATION|  violated|INCONCLUSIVE|HELD|KNOWN)' "$S/out.txt" | head -${MUT_LINES:-3}
rrc=-
if [ "$rc" = 1 ] && [ -n "${REPLAY:-}" ]; then
  # the replay file written for the first violation must reproduce it against the same tree
  R=$(grep -m1 '^VIOLATION' "$S/out.txt" | sed 's/.*replay=//')
  FLOUNDER_SRC="$S/repo/src" VERIF_TARGET="$T" VERIF_OUT="$S" "$(dirname "$(readlink -f "$0")")/../check" "$ID" "$TIER" --replay "$R" > "$S/replay.txt" 2>&1
  rrc=$?
fi
echo "mutant $(basename "$PATCH") on $ID $TIER: exit=$rc replay_exit=$rrc"
exit $rc
