#!/usr/bin/env python3
"""Regenerates /verif/MANIFEST.json from the table below (kept in one place so it stays valid)."""
import json, os, subprocess
V = os.path.dirname(os.path.dirname(os.path.abspath(__file__)))
props = [json.loads(l) for l in open(os.path.join(V, 'properties.jsonl'))]
ids = [p['id'] for p in props]

# id -> (category, technique, level text, level note, design ref)
CHECKS = {
 'C01': ('exploration', 'differential runtime monitor: engine move generator vs. an independent mailbox rules oracle on generated positions and in-place game histories',
         'Every generated position (millions per run: games, synthetic valid positions incl. multi-check and FEN-only flag combinations, en-passant/castling/promotion studies) has its engine move list and check flag compared for set equality with an independent reference implementation of the rules; any panic inside engine code counts as a violation. Sampling, not proof: it is the right level because the input space is astronomically large and the oracle is cheap enough to run millions of times.',
         'Trusts harness/src/oracle.rs (re-validated every run by perft against published counts). Positions never generated are not covered; per-feature counts are in the evidence.', '2 C01'),
 'C02': ('exploration', 'differential runtime monitor: make_move successors and in-place game boards vs. the rules oracle, plus structural invariants of the live board',
         'Every legal move of every visited position is applied with the engine and the resulting board is read back through its accessors and compared field by field (placement, side, rights, ep) with the successor the reference rules prescribe; whole games are played on ONE engine board mutated in place and compared after each ply; piece/colour set disjointness and king counts are asserted on every board read.',
         'Trusts the rules oracle (perft self-test each run). The ep target is compared exactly whenever an ep capture is legal; otherwise target-set and no-target are both accepted.', '2 C02'),
 'C03': ('exploration', 'black-box process monitor: sessions on the real release binary, every go judged against the rules oracle (one bestmove, legal in the position last set)',
         'Sessions of 5..40 go commands on one process of the hooks-off release binary: self-play continuation, jumps between unrelated games without ucinewgame, mates/stalemates/single-move positions, depth 1..5, movetime 0..50 ms and clocks around the 5 s reserve in shuffled token order, so interrupted and completed searches share one table. Each answer must be exactly one bestmove naming a legal move (0000 exactly when none exists); a dying process is a violation. Sampling of an unbounded history space; the oracle is the independent rules implementation.',
         'Unbounded liveness is not decided: a go unanswered after 120 s is inconclusive. go infinite / bare go are not sent (no stop command exists).', '2 C03'),
 'C04': ('exploration', 'hooked differential monitor of the position command (engine board read back vs. reference game) plus black-box survival/legality check on the release binary',
         'Tens of thousands of position commands built from reference games (startpos and FEN forms, FENs exported with halfmove clocks up to 149 and fullmove numbers up to 5899, 0..300 moves incl. both castles, en passant and all promotion letters, sequences of commands on one engine) are given to the real handler; the board it ends up with is read back through the hook and compared field by field with the position the rules prescribe. The same commands go to the real binary, which must survive and then answer a legal move of that position.',
         'Trusts the rules oracle (perft self-test each run). Move counters are only required to be accepted, not compared.', '2 C04'),
 'C05': ('exploration', 'differential runtime monitor: real search vs. pruning-free reference minimax (leaves = the engine own quiescence), audit of every cached claim, quiescence window-consistency',
         'Thousands of positions of all phases: find_best_move on a fresh engine at depth 1..3 and one fixed-depth search (hook) at depth 4..5 on few-men positions are compared with a reference minimax without pruning, ordering or cache; the returned move must attain the value; every entry left in the transposition table is traced back to its position and its (depth, bound, score) claim checked against the reference; quiescence results on random windows must be explained by the full-window result. Depth 4..5 runs in which a deeper cached result was returned are excluded and counted, as the property prescribes.',
         'Trusts the rules oracle and takes the engine own full-window quiescence as the leaf value (that is the property definition). Positions whose reference exceeds the node budget are skipped and counted. Depth > 5 not covered.', '2 C05'),
 'C06': ('fault_enumeration', 'fault enumeration with a deterministic deadline hook: every interruption point (node count / poll index) of real searches, later completed search compared with the reference minimax, history record compared before/after; black-box movetime interruptions on the release binary',
         'The deadline hook stops a real search after exactly L nodes, for every L in 1..total on small searches and a stratified sample plus all iteration boundaries on larger ones, also at the n-th deadline poll and twice in a row; afterwards the same engine instance runs a completed search whose value must equal the reference minimax value and whose move must attain it, and the engine record of the game history (length and draw answers) must be what it was before the interrupted search. The real wall-clock path is sampled on the release binary with go movetime 0..3 followed by go depth j+1.',
         'Node/poll deadlines are answered by the same should_stop() as the wall clock. Searches too large for the reference budget are skipped and counted. Depth 4 only in the thorough tier (deeper-entry reuse excluded as in C05).', '2 C06'),
 'C07': ('fault_enumeration', 'fault enumeration of deadline expiry points with a hook that records the node count at which the deadline passed; cap turns a runaway search into a caught event; CPU-time measurement of go movetime on the release binary',
         'For every interruption point of small searches, stratified points up to 300 000 nodes in promotion races whose quiescence explodes and in depth 4..5 middlegames, and real wall-clock budgets of 0..20 ms, the hook records the node count at which the deadline passed; the number of nodes expanded afterwards must stay within 5000 (observed: at most 1). A cap turns a search that ignores its deadline into a caught event rather than a hang. The release binary is timed by CPU consumed between go movetime T and bestmove (bound T + 500 ms).',
         '5000 nodes / 500 ms is the monitor reading of "small bounded amount of further work", generous so that poll-every-N designs are not accused. CPU time <= wall time for this single-threaded process.', '2 C07'),
 'C08': ('exploration', 'runtime monitor with a rules-only oracle: set of mating moves / set of moves allowing a mate in one vs. the answer of real searches',
         'All positions met along thousands of random games, synthetic positions and king-hunt studies that contain a mate in one (depth 1..4) or a mix of moves that do and do not allow one (depth 2..3) are searched on a fresh engine; the answer must be a mating move, respectively must not be a move that allows mate in one. Sets are computed with the reference rules only.',
         'Trusts the rules oracle. Depth 4 only on positions with at most 10 men.', '2 C08'),
 'C09': ('exploration', 'hooked monitor of the repetition answer for every successor after real position commands vs. occurrence counts in the reference game; black-box depth-1 score check on the release binary',
         'Thousands of game histories that shuffle pieces out and back (occurrence counts 0..4, incl. the initial position) are given with real position commands, alone or after another position command on the same engine (extension, prefix, unrelated game); for every successor of the current position the engine repetition answer must be draw when it already occurred twice and not-draw when it occurred fewer than twice. End-to-end the release binary must print, for go depth 1 after ucinewgame, the score max(0 for third occurrences, -quiescence otherwise).',
         'Positions equal except for an ep target that cannot be captured are accepted either way. The end-to-end expectation uses the engine own quiescence (hook build of the same sources).', '2 C09'),
 'C13': ('exploration', 'black-box self-comparison across processes (fresh random keys each) and after ucinewgame; in-process comparison of (score, move, nodes) across freshly drawn key sets',
         'Depth-limited scripts are run in several separate processes and must give byte-identical transcripts (time/nps removed); dozens of fresh searchers, each with its own random keys, must agree on score, move and node count per position and depth; the transcript of a script after prefix + ucinewgame (prefix with searches, time-limited searches, long histories; script may start with a bare go) must equal its transcript in a fresh process.',
         'Key sets not drawn are not covered; time-limited searches are only used as prefixes, never compared.', '2 C13'),
 'C16': ('exploration', 'black-box protocol-model monitor on the release binary with strace counting reads of an ended input (event count, not timeout) and exit status',
         'Thousands of random input streams (uci/isready/ucinewgame/position/go depth 1 mixed with blank, whitespace, 20 kB, unicode, invalid UTF-8 and near-miss lines, CRLF, surrounding blanks; ending with quit, at end of input, or mid-line) are fed to fresh processes; the transcript must match the protocol model exactly, the exit status must be 0, and strace must show at most a few zero-length reads of fd 0 after the end of input (10 with the process still running is the violation witness).',
         'Junk never contains a recognised command word as a token. Fallback when strace cannot attach: alive 25 s after end of input having burnt > 2 s CPU.', '2 C16'),
 'C17': ('exploration', 'differential runtime monitor of the quiescence move generator plus an event log (hook) of every quiescence node visited by real searches, both checked against the rules oracle',
         'generate_quiescence_moves is compared with {legal moves that capture, promote or check} on millions of positions, and a hook logs (position, in-check, moves examined) at every quiescence node of real depth 1-2 searches; each logged node is checked against the same set, or against all legal moves when in check.',
         'Trusts the rules oracle and the q-log hook (it only copies the move vector the search is about to iterate).', '2 C17'),
 'C10': ('exploration', 'exhaustive differential runtime check of the live lookup tables against ray walks and board geometry',
         'Every subset of the full rays of every square is looked up in the real tables (rook 1 048 576, bishop 71 168 occupancies, queen both) and compared with a ray walk; millions of random 64-bit occupancies additionally check f(occ) == f(occ & rays); all 128 leaper sets and all 4032 ordered square pairs (segment and whole line) are compared with geometry. Exhaustive over the finite space that can influence a lookup, hence the strongest level this family offers.',
         'Trusts the dozen-line ray-walk/geometry reference. End squares of the segment/line sets are accepted either way (documented convention, no caller depends on it); a == b is not constrained.', '2 C10'),
 'C11': ('exploration', 'runtime monitor of hash equality/inequality relations across many freshly drawn key sets',
         'For hundreds to thousands of key sets drawn by the engine itself and thousands of positions each: in-place board vs FEN-rebuilt board with other counters vs transposed move order must hash equal; every valid single-component variation (piece removed/recoloured/retyped/relocated/added, two squares exchanged, side flipped, each right toggled, ep none/file/other file) must hash differently; no collisions among the distinct positions of a key set.',
         'A spurious 64-bit equality has probability < 1e-12 per run. ep variations are only judged when an ep capture is legal (both conventions then agree the positions differ).', '2 C11'),
 'C12': ('exploration', 'hooked observation of the real go parser: relational oracle over recorded budgets',
         'The real command handler is driven in-process with tens of thousands of go commands (hostile clock/increment values, all 24 token orders, both sides to move); a hook records the budget handed to the search. Checked: identical budget when only the opponent values or the order change; budget <= remaining; budget < remaining when any time remains. No formula is assumed.',
         'Observes the budget given to find_best_move, not the time actually used (that is C07). Token sets are the four pairs, optionally followed by movestogo.', '2 C12'),
 'C14': ('exploration', 'metamorphic runtime monitor of the evaluator (side swap, mirror, purity, bound)',
         'Millions of positions (games, synthetic, nine-queen extremes, promotion races): evaluate on a long-lived evaluator vs a fresh one (incl. A,B,A), exact negation under side swap, equality under mirror-with-colour-exchange, independence of rights/ep/counters, |score| < 30000.',
         'Bound is 30000 against a +-32767 window (today about 12 100 at most, reported in the evidence).', '2 C14'),
 'C15': ('exploration', 'online trace checker: store/retrieve histories against a reference map',
         'Tens of millions of operations in random histories on hostile key sets (0, 1, MAX, one-bit neighbours, keys equal in the low 16/20/24/32 or high 32 bits, depths around 0/127/128/255, None moves, extreme scores) are checked operation by operation against a ten-line depth-preferred reference map; the held state is re-observed before each store so a legitimately lossy table is not accused.',
         'A retrieve returning nothing is always accepted (the property allows it); the run requires hits, misses, refusals and both kinds of replacement to have been observed.', '2 C15'),
}
NOT_YET = 'monitor designed in DESIGN.md section 2 but not built yet in this revision'

manifest = {
 'version': 1,
 'setup_cmd': 'cd /verif && ./setup.sh',
 'hooks': {
  'guard': 'cfg(flounder_verif)',
  'enable': "the harness crate /verif/harness compiles /repo/src/*.rs into itself (build.rs generates #[path] module declarations from /repo/src/main.rs) and its build.rs emits cargo:rustc-cfg=flounder_verif; equivalent stand-alone build: RUSTFLAGS='--cfg flounder_verif' cargo build --manifest-path /repo/Cargo.toml",
  'baseline_off_cmd': 'cd /repo && cargo test --workspace --no-fail-fast --offline',
  'source_commits': [],
  'add_only': True,
 },
 'engines': [
  {'name': 'fverif', 'path': '/verif/harness', 'serves_properties': sorted(CHECKS), 'kind_free_text': 'Rust harness: engine sources compiled in with hooks on, overflow checks and debug assertions enabled; reference rules oracle, reference minimax, reference maps; in-process differential monitors, hook/event-log monitors, black-box process monitors (strace, /proc CPU time) on the hooks-off release binary'},
 ],
 'checks': [],
 'notes': 'Technique family: runtime monitoring. Every verdict comes from an oracle observing executions of the real code. Exit 0 held / 1 VIOLATION / 2 inconclusive. Fix commits and their findings: known_findings.json.',
 'not_applicable': [],
}
hooks = subprocess.run(['git', '-C', '/repo', 'log', '--format=%H %s'], capture_output=True, text=True).stdout.splitlines()
manifest['hooks']['source_commits'] = [l.split()[0] for l in hooks if l.split(' ', 1)[1].startswith('verif hooks')]
for pid in ids:
    if pid in CHECKS:
        cat, tech, text, note, ref = CHECKS[pid]
        manifest['checks'].append({
         'property_id': pid,
         'quick_cmd': './check %s quick' % pid,
         'thorough_cmd': './check %s thorough' % pid,
         'evidence_file': '/verif/evidence/%s.json' % pid,
         'replay_cmd_template': './check %s quick --replay {path}' % pid,
         'engine': 'fverif',
         'level_claimed': {'category': cat, 'text': text, 'design_ref': 'DESIGN.md section ' + ref},
         'level_note': note,
         'technique': tech,
        })
    else:
        manifest['not_applicable'].append({'property_id': pid, 'reason': NOT_YET})
json.dump(manifest, open(os.path.join(V, 'MANIFEST.json'), 'w'), indent=1)
print('MANIFEST.json: %d checks, %d not_applicable' % (len(manifest['checks']), len(manifest['not_applicable'])))
