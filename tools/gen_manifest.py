#!/usr/bin/env python3
"""Regenerates /verif/MANIFEST.json from the table below (kept in one place so it stays valid)."""
import json, os, subprocess
V = os.path.dirname(os.path.dirname(os.path.abspath(__file__)))
props = [json.loads(l) for l in open(os.path.join(V, 'properties.jsonl'))]
ids = [p['id'] for p in props]

# id -> (category, technique, level text, level note, design ref)
CHECKS = {
 'C01': ('exploration', 'differential runtime monitor: engine move generator vs. an independent mailbox rules oracle on generated positions and in-place game histories',
         'Every generated position (millions per run: games, synthetic valid positions incl. multi-check and FEN-only flag combinations, en-passant/castling/promotion studies) has its engine move list and check flag compared for set equality with an independent reference implementation of the rules; any panic inside engine code counts as a violation. Sampling, not proof: it is the right level because the input space is astronomically large and the oracle is cheap enough to run millions of times.',
         'Trusts harness/src/oracle.rs (re-validated every run by perft against published counts). Positions never generated are not covered; per-feature counts are in the evidence.', '2 C01'),
 'C02': ('exploration', 'differential runtime monitor: make_move successors and in-place game boards vs. the rules oracle, plus structural invariants of the live board',
         'Every legal move of every visited position is applied with the engine and the resulting board is read back through its accessors and compared field by field (placement, side, rights, ep) with the successor the reference rules prescribe; whole games are played on ONE engine board mutated in place and compared after each ply; piece/colour set disjointness and king counts are asserted on every board read.',
         'Trusts the rules oracle (perft self-test each run). The ep target is compared exactly whenever an ep capture is legal; otherwise target-set and no-target are both accepted.', '2 C02'),
 'C17': ('exploration', 'differential runtime monitor of the quiescence move generator plus an event log (hook) of every quiescence node visited by real searches, both checked against the rules oracle',
         'generate_quiescence_moves is compared with {legal moves that capture, promote or check} on millions of positions, and a hook logs (position, in-check, moves examined) at every quiescence node of real depth 1-2 searches; each logged node is checked against the same set, or against all legal moves when in check.',
         'Trusts the rules oracle and the q-log hook (it only copies the move vector the search is about to iterate).', '2 C17'),
}
NOT_YET = 'monitor designed in DESIGN.md section 2 but not built yet in this revision'

manifest = {
 'version': 1,
 'setup_cmd': 'cd /verif && ./setup.sh',
 'hooks': {
  'guard': 'cfg(flounder_verif)',
  'enable': "the harness crate /verif/harness compiles /repo/src/*.rs into itself (build.rs generates #[path] module declarations from /repo/src/main.rs) and its build.rs emits cargo:rustc-cfg=flounder_verif; equivalent stand-alone build: RUSTFLAGS='--cfg flounder_verif' cargo build --manifest-path /repo/Cargo.toml",
  'baseline_off_cmd': 'cd /repo && cargo test --workspace --no-fail-fast --offline',
  'source_commits': [],
  'add_only': True,
 },
 'engines': [
  {'name': 'fverif', 'path': '/verif/harness', 'serves_properties': sorted(CHECKS), 'kind_free_text': 'Rust harness: engine sources compiled in with hooks on, overflow checks and debug assertions enabled; reference rules oracle, reference minimax, reference maps; in-process differential monitors, hook/event-log monitors, black-box process monitors (strace, /proc CPU time) on the hooks-off release binary'},
 ],
 'checks': [],
 'notes': 'Technique family: runtime monitoring. Every verdict comes from an oracle observing executions of the real code. Exit 0 held / 1 VIOLATION / 2 inconclusive. Fix commits and their findings: known_findings.json.',
 'not_applicable': [],
}
hooks = subprocess.run(['git', '-C', '/repo', 'log', '--format=%H %s'], capture_output=True, text=True).stdout.splitlines()
manifest['hooks']['source_commits'] = [l.split()[0] for l in hooks if l.split(' ', 1)[1].startswith('verif hooks')]
for pid in ids:
    if pid in CHECKS:
        cat, tech, text, note, ref = CHECKS[pid]
        manifest['checks'].append({
         'property_id': pid,
         'quick_cmd': './check %s quick' % pid,
         'thorough_cmd': './check %s thorough' % pid,
         'evidence_file': '/verif/evidence/%s.json' % pid,
         'replay_cmd_template': './check %s quick --replay {path}' % pid,
         'engine': 'fverif',
         'level_claimed': {'category': cat, 'text': text, 'design_ref': 'DESIGN.md section ' + ref},
         'level_note': note,
         'technique': tech,
        })
    else:
        manifest['not_applicable'].append({'property_id': pid, 'reason': NOT_YET})
json.dump(manifest, open(os.path.join(V, 'MANIFEST.json'), 'w'), indent=1)
print('MANIFEST.json: %d checks, %d not_applicable' % (len(manifest['checks']), len(manifest['not_applicable'])))
