#!/usr/bin/env python3
"""Regenerates /verif/MANIFEST.json from the table below (kept in one place so it stays valid)."""
import json, os, subprocess
V = os.path.dirname(os.path.dirname(os.path.abspath(__file__)))
props = [json.loads(l) for l in open(os.path.join(V, 'properties.jsonl'))]
ids = [p['id'] for p in props]

# id -> (category, technique, level text, level note, design ref)
CHECKS = {
 'C01': ('exploration', 'differential runtime monitor: engine move generator vs. an independent mailbox rules oracle on generated positions and in-place game histories',
         'Every generated position (millions per run: games, synthetic valid positions incl. multi-check and FEN-only flag combinations, en-passant/castling/promotion studies) has its engine move list and check flag compared for set equality with an independent reference implementation of the rules; any panic inside engine code counts as a violation. Sampling, not proof: it is the right level because the input space is astronomically large and the oracle is cheap enough to run millions of times.',
         'Trusts harness/src/oracle.rs (re-validated every run by perft against published counts). Positions never generated are not covered; per-feature counts are in the evidence.', '2 C01'),
 'C02': ('exploration', 'differential runtime monitor: make_move successors and in-place game boards vs. the rules oracle, plus structural invariants of the live board',
         'Every legal move of every visited position is applied with the engine and the resulting board is read back through its accessors and compared field by field (placement, side, rights, ep) with the successor the reference rules prescribe; whole games are played on ONE engine board mutated in place and compared after each ply; piece/colour set disjointness and king counts are asserted on every board read.',
         'Trusts the rules oracle (perft self-test each run). The ep target is compared exactly whenever an ep capture is legal; otherwise target-set and no-target are both accepted.', '2 C02'),
 'C17': ('exploration', 'differential runtime monitor of the quiescence move generator plus an event log (hook) of every quiescence node visited by real searches, both checked against the rules oracle',
         'generate_quiescence_moves is compared with {legal moves that capture, promote or check} on millions of positions, and a hook logs (position, in-check, moves examined) at every quiescence node of real depth 1-2 searches; each logged node is checked against the same set, or against all legal moves when in check.',
         'Trusts the rules oracle and the q-log hook (it only copies the move vector the search is about to iterate).', '2 C17'),
 'C10': ('exploration', 'exhaustive differential runtime check of the live lookup tables against ray walks and board geometry',
         'Every subset of the full rays of every square is looked up in the real tables (rook 1 048 576, bishop 71 168 occupancies, queen both) and compared with a ray walk; millions of random 64-bit occupancies additionally check f(occ) == f(occ & rays); all 128 leaper sets and all 4032 ordered square pairs (segment and whole line) are compared with geometry. Exhaustive over the finite space that can influence a lookup, hence the strongest level this family offers.',
         'Trusts the dozen-line ray-walk/geometry reference. End squares of the segment/line sets are accepted either way (documented convention, no caller depends on it); a == b is not constrained.', '2 C10'),
 'C11': ('exploration', 'runtime monitor of hash equality/inequality relations across many freshly drawn key sets',
         'For hundreds to thousands of key sets drawn by the engine itself and thousands of positions each: in-place board vs FEN-rebuilt board with other counters vs transposed move order must hash equal; every valid single-component variation (piece removed/recoloured/retyped/relocated/added, two squares exchanged, side flipped, each right toggled, ep none/file/other file) must hash differently; no collisions among the distinct positions of a key set.',
         'A spurious 64-bit equality has probability < 1e-12 per run. ep variations are only judged when an ep capture is legal (both conventions then agree the positions differ).', '2 C11'),
 'C12': ('exploration', 'hooked observation of the real go parser: relational oracle over recorded budgets',
         'The real command handler is driven in-process with tens of thousands of go commands (hostile clock/increment values, all 24 token orders, both sides to move); a hook records the budget handed to the search. Checked: identical budget when only the opponent values or the order change; budget <= remaining; budget < remaining when any time remains. No formula is assumed.',
         'Observes the budget given to find_best_move, not the time actually used (that is C07). Token sets are the four pairs, optionally followed by movestogo.', '2 C12'),
 'C14': ('exploration', 'metamorphic runtime monitor of the evaluator (side swap, mirror, purity, bound)',
         'Millions of positions (games, synthetic, nine-queen extremes, promotion races): evaluate on a long-lived evaluator vs a fresh one (incl. A,B,A), exact negation under side swap, equality under mirror-with-colour-exchange, independence of rights/ep/counters, |score| < 30000.',
         'Bound is 30000 against a +-32767 window (today about 12 100 at most, reported in the evidence).', '2 C14'),
 'C15': ('exploration', 'online trace checker: store/retrieve histories against a reference map',
         'Tens of millions of operations in random histories on hostile key sets (0, 1, MAX, one-bit neighbours, keys equal in the low 16/20/24/32 or high 32 bits, depths around 0/127/128/255, None moves, extreme scores) are checked operation by operation against a ten-line depth-preferred reference map; the held state is re-observed before each store so a legitimately lossy table is not accused.',
         'A retrieve returning nothing is always accepted (the property allows it); the run requires hits, misses, refusals and both kinds of replacement to have been observed.', '2 C15'),
}
NOT_YET = 'monitor designed in DESIGN.md section 2 but not built yet in this revision'

manifest = {
 'version': 1,
 'setup_cmd': 'cd /verif && ./setup.sh',
 'hooks': {
  'guard': 'cfg(flounder_verif)',
  'enable': "the harness crate /verif/harness compiles /repo/src/*.rs into itself (build.rs generates #[path] module declarations from /repo/src/main.rs) and its build.rs emits cargo:rustc-cfg=flounder_verif; equivalent stand-alone build: RUSTFLAGS='--cfg flounder_verif' cargo build --manifest-path /repo/Cargo.toml",
  'baseline_off_cmd': 'cd /repo && cargo test --workspace --no-fail-fast --offline',
  'source_commits': [],
  'add_only': True,
 },
 'engines': [
  {'name': 'fverif', 'path': '/verif/harness', 'serves_properties': sorted(CHECKS), 'kind_free_text': 'Rust harness: engine sources compiled in with hooks on, overflow checks and debug assertions enabled; reference rules oracle, reference minimax, reference maps; in-process differential monitors, hook/event-log monitors, black-box process monitors (strace, /proc CPU time) on the hooks-off release binary'},
 ],
 'checks': [],
 'notes': 'Technique family: runtime monitoring. Every verdict comes from an oracle observing executions of the real code. Exit 0 held / 1 VIOLATION / 2 inconclusive. Fix commits and their findings: known_findings.json.',
 'not_applicable': [],
}
hooks = subprocess.run(['git', '-C', '/repo', 'log', '--format=%H %s'], capture_output=True, text=True).stdout.splitlines()
manifest['hooks']['source_commits'] = [l.split()[0] for l in hooks if l.split(' ', 1)[1].startswith('verif hooks')]
for pid in ids:
    if pid in CHECKS:
        cat, tech, text, note, ref = CHECKS[pid]
        manifest['checks'].append({
         'property_id': pid,
         'quick_cmd': './check %s quick' % pid,
         'thorough_cmd': './check %s thorough' % pid,
         'evidence_file': '/verif/evidence/%s.json' % pid,
         'replay_cmd_template': './check %s quick --replay {path}' % pid,
         'engine': 'fverif',
         'level_claimed': {'category': cat, 'text': text, 'design_ref': 'DESIGN.md section ' + ref},
         'level_note': note,
         'technique': tech,
        })
    else:
        manifest['not_applicable'].append({'property_id': pid, 'reason': NOT_YET})
json.dump(manifest, open(os.path.join(V, 'MANIFEST.json'), 'w'), indent=1)
print('MANIFEST.json: %d checks, %d not_applicable' % (len(manifest['checks']), len(manifest['not_applicable'])))
