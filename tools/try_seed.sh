#!/bin/bash
# tools/try_seed.sh <ID> <SUB|-> <demo-kind: test:<name> | sh> <check ids...>
# Confirms a candidate seeded change in its scratch worktree (tools/verify_seed.sh) and then runs the named
# checks (quick tier) against a scratch copy of /repo with the change applied (tools/mutant.sh).
ID="$1"; SUB="$2"; KIND="$3"; shift 3
T="$(dirname "$(readlink -f "$0")")"
O=/tmp/seed/$ID.out; [ "$SUB" != "-" ] && O=$O/$SUB
echo "#### $ID/$SUB verify"
if [ "$SUB" = "-" ]; then "$T/verify_seed.sh" "$ID" "$KIND"; else SUB="$SUB" "$T/verify_seed.sh" "$ID" "$KIND"; fi
for c in "$@"; do
  echo "#### $ID/$SUB check $c"
  MUT_TARGET=/tmp/fmut_target_$ID MUT_LINES=4 "$T/mutant.sh" "$O/patch.diff" "$c" "${TIER:-quick}"
done
