#!/usr/bin/env python3
"""tools/keep_seed.py <seed-dir-id> <name> <property> <demo command> <needs> <caught-by (comma list)> [notes]
Copies a confirmed seeded change from /tmp/seed/<id>.out to /verif/seeded/<name>/ and writes meta.json."""
import sys, os, shutil, json
sid, name, prop, demo, needs, caught = sys.argv[1:7]
notes = sys.argv[7] if len(sys.argv) > 7 else ''
src = '/tmp/seed/%s.out' % sid  # sid may be 'C03/A'
if '/' in sid:
    src = '/tmp/seed/%s.out/%s' % tuple(sid.split('/', 1))
dst = '/verif/seeded/%s' % name
os.makedirs(dst, exist_ok=True)
for f in (os.listdir(src) if os.path.isdir(src) else []):
    if os.path.isdir(os.path.join(src, f)) or f.startswith('FOREIGN'):
        continue
    if f.endswith('.log') or f.startswith('run_') or f.startswith('full_suite'):
        continue
    shutil.copy(os.path.join(src, f), os.path.join(dst, f))
meta = {
 'breaks_property': prop,
 'needs_to_manifest': needs,
 'demonstration': demo,
 'confirmed': 'tools/verify_seed.sh in the scratch worktree: crate builds, the full 91-test suite passes with the change, the demonstration fails with the change and passes with it reverted',
 'checks_run_against_it': 'tools/mutant.sh <patch> <ID> quick (scratch copy of /repo with the patch applied; same harness, FLOUNDER_SRC pointing at the copy)',
 'caught_by': [c for c in caught.split(',') if c],
 'notes': notes,
 'round': int(os.environ.get('SEED_ROUND', '3')),
}
json.dump(meta, open(os.path.join(dst, 'meta.json'), 'w'), indent=1)
print('kept', dst, os.listdir(dst))
