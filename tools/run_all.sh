#!/bin/bash
# tools/run_all.sh [tier] — run every check once on the current tree, print one line each
cd "$(dirname "$(readlink -f "$0")")/.."
tier="${1:-quick}"
for id in C01 C02 C03 C04 C05 C06 C07 C08 C09 C10 C11 C12 C13 C14 C15 C16 C17; do
  s=$(date +%s)
  out=$(./check $id $tier 2>&1); rc=$?
  e=$(( $(date +%s) - s ))
  echo "$id rc=$rc ${e}s $(echo "$out" | grep -E '^(VIOLATION|INCONCLUSIVE|KNOWN)' | head -3 | tr '\n' ' ')"
done
